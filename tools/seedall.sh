#!/bin/bash
# seedall.sh : run every kept seeded defect against the quick check of the property it targets
# (meta.json "property"); appends to seeded/RESULTS.log. Needs exclusive use of /repo.
cd /verif
for d in seeded/C*-*/; do
  s=$(basename $d); p=$(python3 -c "import json;print(json.load(open('$d/meta.json'))['property'])")
  tools/seedrun.sh $s $p 2>&1 | grep -E "^== seed" | cut -c1-200
done
