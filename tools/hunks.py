#!/usr/bin/env python3
"""hunks.py PATCH list | hunks.py PATCH emit i j k ...  -> prints a patch with only the chosen hunks"""
import sys, re
lines = open(sys.argv[1]).read().split('\n')
files = []  # (header_lines, [hunks])
cur = None
for l in lines:
    if l.startswith('diff --git'):
        cur = {'hdr': [l], 'hunks': []}
        files.append(cur)
    elif l.startswith('@@'):
        cur['hunks'].append([l])
    elif cur is not None and cur['hunks']:
        cur['hunks'][-1].append(l)
    elif cur is not None:
        cur['hdr'].append(l)
idx = 0
sel = set(map(int, sys.argv[3:])) if sys.argv[2] == 'emit' else None
out = []
for f in files:
    chosen = []
    for h in f['hunks']:
        if sel is None:
            print(idx, f['hdr'][0].split(' b/')[-1], h[0][:90])
        elif idx in sel:
            chosen.append(h)
        idx += 1
    if chosen:
        out += f['hdr']
        for h in chosen:
            while h and h[-1] == '':
                h = h[:-1]
            out += h
if sel is not None:
    print('\n'.join(out))
