#!/usr/bin/env python3
"""mkseedprompt.py <round-letter> <Cxx...>: write /tmp/seedout/<Cxx><r>.prompt.txt for a fresh sub-agent.
The prompt holds only the property's text (from properties.jsonl), the sandbox recipe and one-line summaries of
the mutations already produced for that property (so that new ones differ) - nothing else from /verif."""
import json, sys, glob, os
r = sys.argv[1]
props = {}
for l in open('/verif/properties.jsonl'):
    p = json.loads(l); props[p['id']] = p
TEMPLATE = open('/verif/tools/seedprompt.template.txt').read()
for pid in sys.argv[2:]:
    p = props[pid]
    tag = pid + r
    prior = []
    for d in sorted(glob.glob('/verif/seeded/%s*-*' % pid)):
        try:
            m = json.load(open(d + '/meta.json'))
        except Exception:
            continue
        s = (m.get('summary') or '').replace('\n', ' ')[:300]
        f = ','.join(m.get('files') or [])
        if s:
            prior.append('- [%s] %s' % (f, s))
    text = TEMPLATE.replace('@TAG@', tag).replace('@PID@', pid).replace('@TITLE@', p['title']) \
        .replace('@STATEMENT@', p['statement']).replace('@QUANT@', p['quantifier']['text']) \
        .replace('@PRIOR@', '\n'.join(prior))
    os.makedirs('/tmp/seedout/' + tag, exist_ok=True)
    open('/tmp/seedout/%s.prompt.txt' % tag, 'w').write(text)
    print(tag, len(prior), 'prior')
