#!/usr/bin/env python3
"""Regenerate the findings table in DESIGN.md §7 from KNOWN_FINDINGS.json."""
import json, os, re
ROOT = os.path.dirname(os.path.dirname(os.path.abspath(__file__)))
d = json.load(open(os.path.join(ROOT, 'KNOWN_FINDINGS.json')))
rows = ['| Prop | Status | Commit | Where | What failed |', '|---|---|---|---|---|']
for e in d['findings']:
    rows.append('| %s | %s | `%s` | %s | %s |' % (e['property'], e['status'], e.get('commit') or '–', e['site'].split(' (matcher')[0], e['what'].replace('|', '/')[:260]))
p = os.path.join(ROOT, 'DESIGN.md')
s = open(p).read()
a = s.index('| Prop | Status | Commit | Where | What failed |')
b = s.index('Notable ones that the pre-build reading')
s = s[:a] + '\n'.join(rows) + '\n\n' + s[b:]
nf = sum(1 for e in d['findings'] if e['status'] == 'fixed')
nk = sum(1 for e in d['findings'] if e['status'] == 'known')
s = re.sub(r'\*\*\d+ genuine defects\*\* were\nfound in the pinned tree by these checks \(\d+ repaired in \d+ `fix:` commits, \d+ recorded as known\)',
           '**%d genuine defects** were\nfound in the pinned tree by these checks (%d repaired in `fix:` commits, %d recorded as known)' % (nf + nk, nf, nk), s)
open(p, 'w').write(s)
print(nf, 'fixed', nk, 'known')
