#!/bin/bash
# seedrun.sh <seed-dir-name> <prop> [<prop>...] : apply a kept seeded defect to /repo, run the quick checks, undo.
S=/verif/seeded/$1; shift
cd /repo && git status --short | grep -v '^??' | grep . && { echo "repo dirty"; exit 2; }
git -C /repo apply $S/patch.diff || git -C /repo apply -3 $S/patch.diff || { echo "cannot apply"; exit 2; }
cd /verif
mkdir -p /verif/.cache/evkeep
for p in "$@"; do
  cp -f evidence/$p.json /verif/.cache/evkeep/$p.json 2>/dev/null
  out=$(./check $p --tier ${TIER:-quick} 2>&1); rc=$?
  echo "== seed=$(basename $S) check=$p rc=$rc $(echo "$out" | grep -E '^VIOLATION|INCONCLUSIVE' | head -1)"
  echo "$out" | grep -v "rapid\] draw" | grep -E "failed after|wrong|want|!=" | head -3 | cut -c1-400
  echo "$(date +%F_%T) seed=$(basename $S) check=$p tier=${TIER:-quick} rc=$rc" >> /verif/seeded/RESULTS.log
  cp -f /verif/.cache/evkeep/$p.json evidence/$p.json 2>/dev/null   # evidence must describe a run on the unchanged tree
done
git -C /repo checkout -- . ; git -C /repo reset -q
git -C /repo status --short | grep -v '^??'
