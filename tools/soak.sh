#!/bin/bash
# soak.sh [tier] [seeds...] : run every check at several VERIF_SEED values; print rc and wall time per run.
TIER=${1:-quick}; shift; SEEDS=${@:-1 2 3}
cd "$(dirname "$0")/.."
for seed in $SEEDS; do
  for p in ${SOAK_ORDER:-C01 C02 C03 C04 C05 C06 C07 C08 C09 C10 C11 C12 C13 C14 C15 C16 C17 C18 C19 C20}; do
    s=$(date +%s); out=$(VERIF_SEED=$seed ./check $p --tier $TIER 2>&1); rc=$?; e=$(date +%s)
    echo "SOAK tier=$TIER seed=$seed $p rc=$rc wall=$((e-s))s $(echo "$out" | grep -E '^C[0-9]+ ' | head -1)"
    if [ $rc -ne 0 ]; then echo "$out" | grep -v "rapid\] draw" | tail -25 | cut -c1-1500; fi
  done
done
