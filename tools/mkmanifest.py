#!/usr/bin/env python3
"""Regenerate MANIFEST.json from tools/props.py (keeps it valid at all times)."""
import json, os, subprocess, sys
ROOT = os.path.dirname(os.path.dirname(os.path.abspath(__file__)))
sys.path.insert(0, os.path.join(ROOT, 'tools'))
from props import PROPS
try:
    from props import NOT_APPLICABLE
except ImportError:
    NOT_APPLICABLE = {}
LEVEL_WHY = {
    'exploration': '. Exploration is the honest level: the property quantifies over an unbounded space of inputs / histories / schedules, which generated search samples densely and measurably (class histogram, distinct non-trivial cases and samples in the evidence file) but cannot exhaust; a green run is evidence, not proof.',
    'fault_enumeration': '. Fault enumeration is the right level: for each generated base input the fault space (truncation points, writer-failure offsets, field corruptions) is enumerated, exhaustively up to the stated length, while the base inputs themselves are sampled; nothing is claimed beyond the catalogue and the sampled bases.',
}
allids = [json.loads(l)['id'] for l in open(os.path.join(ROOT, 'properties.jsonl'))]
hooks = subprocess.run(['git', '-C', '/repo', 'log', '--format=%H %s'], capture_output=True, text=True).stdout.splitlines()
hook_commits = [l.split()[0] for l in hooks if l.split(' ', 1)[1].startswith('verif hook')]
m = {
    'version': 1,
    'setup_cmd': './check --setup',
    'hooks': {
        'guard': 'verif',
        'enable': 'go test -tags verif (the driver ./check always builds the harness test binaries from /repo\'s working tree with -tags verif)',
        'baseline_off_cmd': 'python3 /verif/tools/baseline.py /repo',
        'source_commits': hook_commits,
        'add_only': True,
    },
    'engines': [
        {'name': 'rapid', 'path': 'harness/', 'serves_properties': sorted(PROPS),
         'kind_free_text': 'pgregory.net/rapid v1.3.0 property-based tests (plain and state-machine), sharded by the python driver ./check; Go native fuzz targets in the thorough tier of the decoder properties (C10, C18) and of the history properties (C02, C09, C17)'},
    ],
    'checks': [],
    'not_applicable': [{'property_id': k, 'reason': NOT_APPLICABLE.get(k, 'no check built yet (work in progress); will be claimed once its check exists and is silent on the unchanged tree')}
                       for k in allids if k not in PROPS],
    'notes': 'All checks: cwd=/verif; VERIF_SEED selects the rapid seeds of all shards; evidence is rewritten on every run; exit 2 = inconclusive (infrastructure), never a violation. Known findings: KNOWN_FINDINGS.json.',
}
for pid in sorted(PROPS):
    c = PROPS[pid]
    m['checks'].append({
        'property_id': pid,
        'quick_cmd': './check %s --tier quick' % pid,
        'thorough_cmd': './check %s --tier thorough' % pid,
        'evidence_file': 'evidence/%s.json' % pid,
        'replay_cmd_template': './check %s --replay {path}' % pid,
        'engine': 'rapid',
        'level_claimed': {'category': c['level'], 'text': c['level_text'] + LEVEL_WHY[c['level']], 'design_ref': 'DESIGN.md §6 ' + pid},
        'level_note': c['level_note'],
        'technique': c['technique'],
    })
json.dump(m, open(os.path.join(ROOT, 'MANIFEST.json'), 'w'), indent=1)
print('MANIFEST.json: %d checks, %d not_applicable' % (len(m['checks']), len(m['not_applicable'])))
