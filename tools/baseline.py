#!/usr/bin/env python3
"""Run the repository's own suite with the verif guard OFF and compare with BASELINE.json.
usage: baseline.py [repo_dir]   exit 0 iff every stable_pass test passes."""
import json, os, subprocess, sys
repo = sys.argv[1] if len(sys.argv) > 1 else '/repo'
base = json.load(open('/root/.vp/BASELINE.json'))
env = dict(os.environ, GOFLAGS='-mod=mod', GOPROXY='off', GOSUMDB='off', GOTOOLCHAIN='local')
go = '/root/go/pkg/mod/golang.org/toolchain@v0.0.1-go1.24.4.linux-amd64/bin/go'
if not os.path.exists(go):
    go = 'go1.26.8'
p = subprocess.run([go, 'test', '-json', '-vet=off', '-count=1', '-timeout', '25m', './...'],
                   cwd=repo, env=env, capture_output=True, text=True)
res = {}
for line in p.stdout.splitlines():
    try:
        e = json.loads(line)
    except Exception:
        continue
    if e.get('Test') and e.get('Action') in ('pass', 'fail', 'skip'):
        res[e['Package'] + '::' + e['Test']] = e['Action']
want = base['stable_pass']
missing = [t for t in want if res.get(t) != 'pass']
npass = sum(1 for v in res.values() if v == 'pass')
nfail = sorted(k for k, v in res.items() if v == 'fail')
print(f'passed={npass} failed={len(nfail)} baseline={len(want)} baseline_not_passing={len(missing)}')
for t in missing[:40]:
    print('  NOT PASSING:', t, res.get(t))
for t in nfail:
    print('  failed:', t)
sys.exit(1 if missing else 0)
