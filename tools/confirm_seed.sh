#!/bin/bash
# confirm_seed.sh <PROP> <N> : independently confirm a sub-agent's seeded defect in a scratch worktree
# (suite unchanged with the patch; demo fails with it and passes without), then store it under /verif/seeded/.
set -u
P=$1; N=$2; PROP=${3:-$(echo $P | cut -c1-3)}; SRC=/tmp/seedout/$P; WT=/tmp/wt/confirm-$P-$N
export GOFLAGS=-mod=mod GOPROXY=off GOSUMDB=off GOTOOLCHAIN=local
GO=/root/go/pkg/mod/golang.org/toolchain@v0.0.1-go1.24.4.linux-amd64/bin/go
git -C /repo worktree remove --force $WT 2>/dev/null
git -C /repo worktree add -q --detach $WT HEAD || exit 2
cd $WT
if ! git apply --check $SRC/patch$N.diff 2>/dev/null; then
  if ! git apply -3 $SRC/patch$N.diff 2>/dev/null; then echo "RESULT $P-$N: patch does not apply"; git -C /repo worktree remove --force $WT; exit 1; fi
  git diff HEAD > /tmp/seedout/$P/patch$N.rebased.diff; git checkout -q -- . ; git reset -q
  PATCH=/tmp/seedout/$P/patch$N.rebased.diff
else PATCH=$SRC/patch$N.diff; fi
pkg=$(grep -m1 '^package ' $SRC/demo${N}_test.go | awk '{print $2}')
case $pkg in roaring|roaring_test) dir=. ;; roaring64|roaring64_test) dir=roaring64 ;; *) dir=BitSliceIndexing ;; esac
# the 32-bit BSI package is also called "roaring": look at what the patch touches / what the demo imports
if [ "$dir" = "." ] && grep -q '^diff --git a/BitSliceIndexing/' $PATCH && ! grep -q '^diff --git a/[a-z_0-9]*\.go' $PATCH; then dir=BitSliceIndexing; fi
# ... or its header comment says where it belongs
if [ "$dir" = "." ] && head -15 $SRC/demo${N}_test.go | grep -q "BitSliceIndexing"; then dir=BitSliceIndexing; fi
[ -n "${SEED_DIR:-}" ] && dir=$SEED_DIR      # override: where the demo goes
RACE=""; [ -n "${SEED_RACE:-}" ] && RACE="-race"   # schedule-dependent demos are run under the race detector
git apply $PATCH
suite=$(python3 /verif/tools/baseline.py $WT | head -1)
cp $SRC/demo${N}_test.go $dir/zz_seed_demo_test.go
$GO test $RACE -vet=off -count=1 -run 'TestSeedDemo$' ./$dir/ > /tmp/seedout/$P/confirm$N.with.log 2>&1; with=$?
git apply -R $PATCH
$GO test $RACE -vet=off -count=1 -run 'TestSeedDemo$' ./$dir/ > /tmp/seedout/$P/confirm$N.without.log 2>&1; without=$?
rm -f $dir/zz_seed_demo_test.go
cd /; git -C /repo worktree remove --force $WT
echo "RESULT $P-$N: suite[$suite] demo_with_patch_rc=$with demo_without_rc=$without dir=$dir"
if [[ "$suite" == *"baseline_not_passing=0"* && $with -ne 0 && $without -eq 0 ]]; then
  D=/verif/seeded/$P-$N; mkdir -p $D
  cp $PATCH $D/patch.diff; cp $SRC/demo${N}_test.go $D/demo_test.go
  python3 - "$SRC/meta$N.json" "$D/meta.json" "$PROP" "$dir" "$suite" <<'PY'
import json,sys
src,dst,p,d,suite=sys.argv[1:6]
try: m=json.load(open(src))
except Exception as e: m={'meta_error':str(e)}
m['property']=p; m['demo_dir']=d
m['confirmed']={'suite_with_patch':suite,'demo_with_patch':'FAIL','demo_without_patch':'PASS','how':'tools/confirm_seed.sh in a scratch worktree of /repo HEAD'}
json.dump(m,open(dst,'w'),indent=1)
PY
  echo "KEPT $D"
else echo "REJECTED $P-$N"; fi
