#!/bin/bash
# roundproc.sh <round-letter> <Cxx...> : confirm the three delivered seeds of each property in scratch worktrees
# (four at a time), remove the sub-agent's worktree, then run each kept seed against the check of its property
# (serially: that needs /repo exclusively).
R=$1; shift
cd "$(dirname "$0")/.."
one() {
  p=$1; n=$2; R=$3
  [ -f /tmp/seedout/$p$R/patch$n.diff ] || { echo "MISSING $p$R-$n"; return; }
  race=""; head -3 /tmp/seedout/$p$R/demo${n}_test.go | grep -q "RACE" && race=1
  SEED_RACE=$race tools/confirm_seed.sh $p$R $n 2>&1 | grep -E "RESULT|REJECTED" | grep -v "demo_with_patch_rc=1 demo_without_rc=0" | cut -c1-220
}
export -f one
for p in "$@"; do for n in 1 2 3; do echo "$p $n $R"; done; done | xargs -P 4 -L 1 bash -c 'one $0 $1 $2'
for p in "$@"; do git -C /repo worktree remove --force /tmp/wt/$p$R 2>/dev/null; done
for p in "$@"; do
  for n in 1 2 3; do
    [ -d seeded/$p$R-$n ] || continue
    tools/seedrun.sh $p$R-$n $p 2>&1 | grep -E "^== seed" | cut -c1-130
  done
done
