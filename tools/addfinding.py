#!/usr/bin/env python3
"""addfinding.py fixed|known <property> <commit-or-dash> <site> <what failed ...>  — maintain KNOWN_FINDINGS.json (never used at check run time)."""
import json, os, sys
p = os.path.join(os.path.dirname(os.path.dirname(os.path.abspath(__file__))), 'KNOWN_FINDINGS.json')
d = json.load(open(p)) if os.path.exists(p) else {'_doc': 'Genuine defects of RoaringBitmap/roaring found by the checks. status=fixed entries suppress nothing (the check must pass on the repaired tree); status=known entries are matched narrowly by the named matcher and reported as KNOWN-FINDING lines. Never written at run time.', 'findings': []}
status, prop, commit, site = sys.argv[1:5]
what = ' '.join(sys.argv[5:])
e = {'status': status, 'property': prop, 'site': site, 'what': what}
if status == 'fixed':
    e['commit'] = commit
    e['record'] = 'fixed: property=%s %s %s' % (prop, commit, what)
else:
    e['record'] = 'known: property=%s %s' % (prop, what)
d['findings'].append(e)
json.dump(d, open(p, 'w'), indent=1)
print(e['record'])
