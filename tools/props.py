"""Per-property configuration of the driver (packages, case counts, evidence texts)."""

def T(qs, qc, ts, tc, **kw):
    d = {'quick': dict(shards=qs, checks=qc), 'thorough': dict(shards=ts, checks=tc)}
    for k, v in kw.items():
        tier, key = k.split('_', 1)
        d[{'q': 'quick', 't': 'thorough'}[tier]][key] = v
    return d

PROPS = {}

def prop(pid, pkg, level, rule, tiers, technique, level_text, level_note, assumptions=(), **kw):
    PROPS[pid] = dict(pkg=pkg, level=level, rule=rule, technique=technique, level_text=level_text,
                      level_note=level_note, assumptions=list(assumptions), **tiers, **kw)

COMMON_ASSUME = [
    'the reference model (sorted interval list, harness/model) is correct: it is self-tested against a []bool universe on every run',
    'GODEBUG=clobberfree=1 + forced collections make lost references visible; memory errors that need other allocator states are not forced',
]

prop('C01', 'p32', 'exploration',
     'rapid draws (chunk shapes x requested kind per chunk x key alignment relation x storage form of each operand x op x static/in-place x self); '
     'two cases in three continue with a second in-place step on the result with a third related operand, after which the copy-on-write twin of each operand, the untouched operands and the bytes behind zero-copy operands are compared with their models; a case is non-trivial when both operands are non-empty and share at least one chunk key; distinct = FNV-64 of the full case description (specs, forms, op). '
     'In addition TestC01Matrix ENUMERATES a finite space, partitioned over the shards: every ordered pair of 13 (quick) / 25 (thorough) boundary templates on one aligned chunk (4096/4097 values, full, full-1, 2047/2048 runs, word edges, ...) x requested kinds {natural, run} x {owned, zero-copy shared} per side x with/without unaligned neighbour chunks x 4 ops x {static, in-place}',
     T(4, 2500, 16, 40000),
     'property-based differential testing against an interval-set model (rapid), kinds forced through an independent encoder',
     'generated-input search: every op/form/kind pairing is constructed and compared with an independent model; no proof of absence',
     'trusted: interval-set model; independent portable/frozen encoders (anchored on the Java/C golden files)',
     COMMON_ASSUME)

prop('C02', 'p32', 'exploration',
     'rapid state machine (t.Repeat) over (bitmap, interval-set model): 15 mutation/maintenance rules incl. a constructive rule that drives a chosen chunk to exactly 0/1/4095/4096/4097/65535/65536 elements; '
     'initial state empty or any generated bitmap in any storage form; contents compared after every step. Non-trivial = history contains a range op spanning >=2 chunks or a step that changed the kind signature of the chunks (hook); distinct = FNV-64 of initial state + op list',
     T(4, 500, 16, 8000),
     'model-based stateful property testing (rapid state machine) against an interval-set model; thorough tier adds a coverage-guided native fuzz campaign over byte-coded operation scripts (FuzzOps32)',
     'generated histories compared step by step with a model; bounded length (~30-60 steps), no proof of absence',
     'trusted: interval-set model (self-tested); hook used only for classification',
     COMMON_ASSUME, fuzz=[('p32', 'FuzzOps32', 120)])

prop('C03', 'p32', 'exploration',
     'rapid draws a bitmap (shape x kind per chunk x storage form; one time in three a bitmap with a history: spec, then mutations, algebra and many-way aggregates) and query arguments biased to elements, element+-1, chunk edges, 0, 2^32-1, 2^32; every scalar query is compared with the interval-set model; '
     'Equals against 6 derived sets in other representations; purity via ToBytes/Checksum before/after. Non-trivial = non-empty bitmap whose arguments hit >=3 of {element, gap in chunk, gap between chunks, below min, above max, chunk edge}; distinct = FNV-64 of (spec, form, args)',
     T(4, 1500, 16, 25000),
     'property-based testing of every scalar query against an interval-set model',
     'generated-input search with an independent model as oracle', 'trusted: interval-set model', COMMON_ASSUME)

prop('C04', 'p32', 'exploration',
     'rapid draws a bitmap and a program for each protocol: HasNext/Next/PeekNext/AdvanceIfNeeded programs for Iterator and UnsetIterator (windows up to 3e5 wide, ending at 2^32, across gaps/full chunks), reverse prefix, NextMany/NextMany64 buffer-length sequences from {0,1,2,3,63..65,4095..4097,65535..65537,random}, Iterate/Values/Backward/Ranges/Unset with early stop. '
     'Oracle = index into the model (Select/Rank). Non-trivial = (>=2 chunks or >=2 kinds) and (an AdvanceIfNeeded skipped >=1 element, or a NextMany buffer boundary fell strictly inside a chunk, or a chunk-spanning range was checked); distinct = FNV-64 of (spec, programs)',
     T(4, 1500, 16, 25000),
     'property-based testing of iterator protocols with generated call programs against a model',
     'generated-input search with an independent model as oracle', 'trusted: interval-set model', COMMON_ASSUME)

prop('C15', 'p32', 'exploration',
     'rapid draws bitmaps (half of them built from groups of adjacent chunks that are full / full to one edge / full with one hole, at keys 0, 0xFFFF and elsewhere) and 16 targets per case; NextValue/PreviousValue/NextAbsentValue/PreviousAbsentValue compared with the model (-1 exactly when the model has none on that side). '
     'Non-trivial = the target chunk exists or the answer lies in another chunk than the target; distinct = FNV-64 of (spec, form, targets)',
     T(4, 3000, 16, 40000),
     'property-based testing of neighbour queries against an interval-set model',
     'generated-input search with an independent model as oracle', 'trusted: interval-set model', COMMON_ASSUME)

prop('C16', 'p32', 'exploration',
     'three rapid properties: AddOffset64/AddOffset with offsets from {multiples of 65536, small, min->0, max->2^32-1, extremes, any} vs model shift with clipping (+operand unchanged, result independent and still correct after growing each of its first chunks in place); static Flip vs model and vs in-place Flip on a clone; '
     'dense conversions: ToDense/WriteDenseTo/DenseSize/ToBitSet/FromBitSet bit-for-bit (DenseSize also for bitmaps anywhere in the key space up to 2^32-1; the 2^26-word vector is materialized once per run), FromDense of generated word slices (lengths 0..4096 not multiples of 1024, palettes) with both copy modes where the caller words live in a PROT_READ guarded mapping and the result is then mutated. '
     'Non-trivial = offset not a multiple of 65536 with adjacent chunks / flip range spanning chunks / dense slice with a partial last chunk; distinct = FNV-64 of the case',
     T(4, 1000, 16, 15000),
     'property-based testing against a model + read-only guarded memory for the no-copy path',
     'generated-input search with an independent model as oracle; stray writes become faults', 'trusted: interval-set model; mprotect semantics', COMMON_ASSUME)

SER_ASSUME = COMMON_ASSUME + ['the independent portable/frozen codecs (harness/spec) are a correct reading of the format texts; they reproduce the Java/C golden files byte for byte (anchor tests run before every check)']

prop('C05', 'pser', 'fault_enumeration',
     'rapid draws history-dependent bitmaps (spec x form, then 0-6 mutations / algebra steps; 0..300 chunks) x entry point {ReadFrom with a generated reader chunking incl. 1 byte at a time (one time in four with the 4-byte cookie passed separately, also via MustReadFrom; one time in three through *bytes.Buffer / *bytes.Reader over the slice of the caller), FromBuffer, FromUnsafeBytes, UnmarshalBinary, FromBase64} x receiver {fresh, reused built, reused zero-copy, copy-on-write on} x trailing garbage; '
     'checks writer agreement, byte accounting, exact consumption, Equals, that the copying entry points do not keep the bytes of the caller (they are overwritten afterwards), post-decode operation history vs model; then ENUMERATES writer failure offsets (every offset when the stream is <=4096 bytes, else section boundaries +-1 and 128 random) in three failure modes (nothing / the fitting part / everything written together with the error). '
     'Non-trivial = >=1 chunk and (reused receiver or a non-trivial reader chunking); distinct = FNV-64 of (history, entry, chunking, receiver). The regression tests add the empty bitmap, 65536 chunks, and an exhaustive small-scope sweep of reused receivers (26 previous sizes x 4 growth histories x every stream size up to 2R+8 x 5 entry points).',
     T(4, 600, 16, 8000),
     'property-based round-trip testing + exhaustive writer-fault enumeration per generated stream',
     'generated round trips with exact byte accounting; writer failure offsets enumerated exhaustively for streams <=4096 bytes',
     'trusted: interval-set model; independent decoder for section boundaries', SER_ASSUME, run='^TestC05')

prop('C06', 'pser', 'exploration',
     'two rapid properties. Write: library bytes of history-dependent bitmaps are parsed by a strict independent decoder (cookie, count, run flags + padding bits, ascending keys, card-1, offsets == payload positions, payload kind by cardinality, sorted arrays, bitmap popcount, runs sorted/non-overlapping/in range) and must yield the model. '
     'Read: the independent encoder emits every legal choice (cookie 12347 with or without run chunks, run kind for any chunk whether or not it is smaller, <4 / >=4 chunks, runs split into adjacent pieces in a separately counted class with restricted assertions) and ReadFrom/FromBuffer/FromUnsafeBytes/UnmarshalBinary must read the encoded set. '
     'Non-trivial = stream with >=1 run chunk or >=4 chunks; distinct = FNV-64 of the case. Golden Java/C files are a literal regression case.',
     T(4, 1000, 16, 12000),
     'differential testing against an independent implementation of the format specification (both directions)',
     'generated-input search; the oracle is an independent codec written from the spec and anchored on golden files',
     'trusted: my reading of RoaringFormatSpec, anchored byte-for-byte on testdata/*.bin and testfrozendata/*', SER_ASSUME)

prop('C13', 'pser', 'exploration',
     'rapid draws history-dependent bitmaps; Freeze / FreezeTo (exact size, size+extra with sentinels, four too-small sizes) / WriteFrozenTo must agree byte for byte with GetFrozenSizeInBytes; the bytes are parsed by an independent strict decoder of the CRoaring frozen layout (arena order, tables, typecodes, count semantics per kind, cookie+count header); '
     'FrozenView/MustFrozenView over the bytes in a PROT_READ guarded mapping (into a fresh bitmap, one that holds other chunks, or one that is a view of another image) must be Equal, validate, survive a generated write history (copying) with a forced GC, leave the bytes intact, and re-freeze identically; about a third of the cases then hand the library-written frozen bytes to the zero-copy operation machine of C08 (algebra in both roles, chunk-emptying removals, derived bitmaps, detaching, structural buffer oracle). Non-trivial = >=2 chunk kinds present; distinct = FNV-64 of the history. Regression: empty bitmap and 65536 chunks.',
     T(4, 600, 16, 8000),
     'property-based round-trip + differential testing against an independent frozen-layout decoder; guarded read-only memory',
     'generated-input search with independent decoder and memory-protection instruments',
     'trusted: my reading of the CRoaring frozen layout comment, anchored on testfrozendata/*', SER_ASSUME)

POOL_RULES = ('rapid state machine over a pool of <=6 live bitmaps, each with its own model: rules new (any spec/form, optionally on the keys of an existing member), Clone, static And/Or/Xor/AndNot, static Flip, AddOffset64, FastOr/HeapOr/HeapXor/FastAnd/ParOr/ParHeapOr/ParAnd over lists drawn from the pool (duplicates, empties, worker counts 0..7), '
              'in-place And/Or/Xor/AndNot (incl. self), AndAny, point/range/bulk mutations aimed at chunk keys that several members have in common, SetCopyOnWrite (never on zero-copy lineage), RunOptimize, CloneCopyOnWriteContainers; constructive rules aimed at representation maintenance: trimRuns, andRange, comb, cowClone, dropChunks, andNotOwnPrefix, cutLongRun (range/flip ending exactly behind the longest interval of a run chunk), tinyRanges (1-14 ranges of 1-4 values, one per chunk), addManyComb (one AddMany of up to 3000 isolated values), reAddRange (AddRange over what is already there), landOnThreshold (shrink a chunk to exactly 4095/4096/4097 values by range removal, point removals, AndNot/Xor with an array-sized mask), orRunPair / orInterleavedSparse (two run-efficient run chunks whose union is not); point mutations also through CheckedAdd/CheckedRemove/AddInt; fromDense (a new member from a bit vector with a partial trailing chunk)')

prop('C07', 'p32', 'exploration',
     POOL_RULES + '. Invariant after EVERY step: every pool member equals its own model (so interference in any direction is caught where it happens), the caller\'s argument slice is unchanged, no function returns one of its inputs, '
     'and (structural, hook) no backing array is reachable from two live bitmaps unless both slots carry the copy-on-write flag. A second machine does the same for roaring64. '
     'Non-trivial = the history mutates a bitmap inside a chunk key that it has in common with a bitmap it was derived from / that was derived from it; distinct = FNV-64 of the op list',
     T(4, 300, 16, 4000),
     'model-based stateful property testing over a pool of bitmaps (rapid state machine) + structural sharing invariant via hook',
     'generated histories with a per-bitmap model; bounded length; no proof of absence',
     'trusted: interval-set model; the verif hook exposes backing-array addresses and flags read-only', COMMON_ASSUME,
     parts=[dict(pkg='p32', run='^TestC07$'), dict(pkg='p64', run='^TestC07x64$')])

prop('C09', 'p32', 'exploration',
     POOL_RULES + ', plus portable/frozen write->read round trips that replace a member; histories start from the empty bitmap. Invariant after every step, for every member: Validate()==nil AND independently of Validate: hook walk (ascending keys, no empty chunk, arrays <=4096, bitmaps >4096) '
     'and strict independent decode of ToBytes() (cardinality fields == popcount, arrays strictly increasing, runs sorted/non-overlapping/NON-ADJACENT/in range); ToBytes failing is itself a violation. '
     'Non-trivial = some step changed the kind signature of the pool (a chunk changed kind, appeared or disappeared); distinct = FNV-64 of the op list',
     T(8, 300, 16, 4000),
     'stateful property testing of a data-structure invariant (rapid state machine), with an oracle independent of Validate(); thorough tier adds a coverage-guided native fuzz campaign over byte-coded operation scripts (FuzzWellFormed32)',
     'generated histories; invariant checked after every step by Validate() and by an independent structural walk',
     'trusted: independent portable decoder; hook for the in-memory walk', SER_ASSUME, fuzz=[('p32', 'FuzzWellFormed32', 120)])

prop('C14', 'p32', 'exploration',
     POOL_RULES + ', plus serialization round trips; histories start from the empty bitmap. Invariant after every step, for every member, before and after RunOptimize (on a clone): with N=cardinality and x in {max+1, max+2, next chunk edge, +1 chunk, 2^32}: '
     'GetSerializedSizeInBytes <= 8+9*ceil(x/65536)+2N and <= BoundSerializedSizeInBytes(N,x), and len(ToBytes()) == GetSerializedSizeInBytes. '
     'Non-trivial = a non-empty member holds a run or bitmap chunk; distinct = FNV-64 of the op list',
     T(8, 300, 16, 4000),
     'stateful property testing of a size bound (rapid state machine)',
     'generated histories; bound evaluated after every step', 'trusted: the bound formula as printed in README / BoundSerializedSizeInBytes', COMMON_ASSUME)

prop('C11', 'p32', 'exploration',
     'rapid draws a list of 0..8 bitmaps (pointer duplicates, empty members, any chunk kinds and storage forms) whose keys fall in a common window of 1..260 keys placed at the bottom, middle or very top (ending at 0xFFFF) of the key space; one of FastOr/HeapOr/ParOr/ParHeapOr/FastAnd/ParAnd/HeapXor/x.AndAny is compared with the model fold; '
     'the Par* functions are run with EVERY worker count in {0,1,2,3,4,7,16,33} on the same list and each result is compared (members may be related to earlier members: complement, threshold, touching spans; full-chunk members are placed first); TestC11Matrix enumerates 27 boundary templates x derived partners (same, complement, combs touching the largest/smallest value with cardinality sums 4096/4097) x kinds x 5 list shapes x 13 aggregates; TestC11ManyChunks: members of 700-2100 chunks on sparse keys x 7 worker counts; afterwards a second aggregate of another kind over the same list is compared with its fold and every member (and the bytes behind zero-copy members) with its model. Non-trivial = >=3 members, >=2 distinct keys, >=1 key common to >=2 members; distinct = FNV-64 of (list, fn)',
     T(4, 700, 16, 10000),
     'property-based differential testing of n-ary aggregates against a model fold, all worker counts per case',
     'generated-input search with an independent model as oracle', 'trusted: interval-set model', COMMON_ASSUME)

prop('C10', 'pser', 'fault_enumeration',
     'per rapid-generated valid base stream (<=10 chunks, every legal encoder choice incl. non-minimal run chunks): (1) the stream through ReadFrom/FromBuffer/FromUnsafeBytes/UnmarshalBinary/FromBase64; (2) EVERY proper prefix when the stream is <=2048 bytes (else every section boundary +-2 and 256 random cuts) through all five, each of which must return an error; '
     '(3) a catalogue of ~45 single-field corruptions derived from the negation of each well-formedness rule (cookie, counts up to 2^32-1, run flags, key order/duplicates, cardinality fields incl. the 4095/4096 threshold, offsets, run count/overlap/adjacent/unsorted/duplicate/wrapping runs, unsorted/duplicate array values, bitmap popcount mismatch, random header/any byte) through all five; '
     '(4) the frozen layout: every header/typecode/count/key-table corruption, truncation and extension, type codes that contradict the cardinality, and the 4095/4096/4097 threshold with either type code, through FrozenView; (5) cross-format bytes and noise. Zero-copy inputs sit flush against PROT_NONE guard pages in read-only memory; a panic or fault is a violation. '
     'Whenever a decode succeeds AND Validate()==nil the bitmap goes through a battery (ToArray strictly increasing and inside each chunk\'s range, queries, iterators, Ranges, And/Or/Xor/AndNot static and in-place with a valid partner vs the model, ToBytes round trip). MustReadFrom is compared with ReadFrom+Validate on the same inputs. '
     'Non-trivial = base stream with >=1 chunk (the catalogue reaches the per-chunk reader loop); distinct = FNV-64 of the base stream description',
     T(8, 120, 16, 2500),
     'structured fault enumeration over generated valid streams (rapid) with guard pages, plus a consistency battery as oracle for accepted input',
     'truncations exhaustive per base stream up to 2 KiB; corruption catalogue = negation of each well-formedness conjunct; no claim beyond the catalogue + generated bases',
     'trusted: independent encoders; mmap/mprotect guard semantics; the battery uses the bitmap\'s own ToArray as reference after checking it is a strictly increasing, chunk-consistent list', SER_ASSUME, run='^TestC10', fuzz=[('pser', 'FuzzDecode32', 150)])

prop('C08', 'pser', 'exploration',
     'rapid draws valid portable or frozen bytes (independent encoder), places them in a PROT_READ mapping flush against PROT_NONE guard pages (front or back), loads them with FromBuffer / FromUnsafeBytes / FrozenView and runs a state machine over the loaded bitmap and everything derived from it: point/range/bulk mutations, rules that empty a chunk or drop all leading chunks (the key table must shift), '
     'in-place and static And/Or/Xor/AndNot in both roles with ordinary bitmaps, Clone, Flip, AddOffset64, FastOr, HeapXor, RunOptimize, Clear, reuse as receiver of ReadFrom/UnmarshalBinary; SetCopyOnWrite is never called (documented misuse). At a generated step: detach = CloneCopyOnWriteContainers on every live bitmap, then the mapping is overwritten and unmapped, and the history continues. '
     'Oracle after every step: no fault (a write to the buffer or any access after unmap panics), buffer byte-identical until detach, every live bitmap equals its model before and after detach. Non-trivial = an in-place change hits a chunk that still aliases the buffer, or the history continues >=3 steps after detach; distinct = FNV-64 of the history',
     T(8, 400, 16, 12000),
     'model-based stateful property testing with memory-protection instruments (read-only + guard pages + unmap after detach)',
     'generated histories; stray writes and dangling reads become faults', 'trusted: mprotect/munmap semantics; interval-set model; faults are only caught on the test goroutine (no Par* calls in this machine)', SER_ASSUME)

prop('C17', 'p64', 'exploration',
     'rapid state machine over a pool of <=5 roaring64 bitmaps with uint64 interval-set models: Add/CheckedAdd/AddInt, Remove/CheckedRemove, AddMany (bursts), AddRange/RemoveRange/Flip in place and static Flip with ranges that cross zero, one or two 2^32 borders (incl. whole buckets, ragged ends, start>=end), static and in-place And/Or/Xor/AndNot (incl. self), '
     'AndCardinality/OrCardinality/Intersects/Equals, FastOr/FastAnd/ParOr (workers 0..7), Clone, SetCopyOnWrite, RunOptimize, CloneCopyOnWriteContainers; a query rule checks Minimum/Maximum/Contains/Rank/Select, an Iterator HasNext/Next/PeekNext/AdvanceIfNeeded program, ReverseIterator, ManyIterator buffer sequences, Values/Backward. '
     'Buckets from {0,1,2,0x7FFFFFFF,0xFFFFFFFE,0xFFFFFFFF}; every member compared with its model after every step (whole-bucket members: when changed and every 8th step); any panic is a violation. Non-trivial = some member spans >=2 buckets and >=1 operation touched >=2 buckets; distinct = FNV-64 of the op list. '
     'TestC17Agg: FastOr/FastAnd/ParOr over lists of 0..6 roaring64 bitmaps whose buckets fall in a common window of 1..70 buckets at the bottom, middle or very top (ending at 0xFFFFFFFF) of the bucket space, ParOr with every worker count in {0,1,2,3,4,7,16}, vs the model fold',
     T(8, 120, 16, 2500),
     'model-based stateful property testing against a uint64 interval-set model (rapid state machine); thorough tier adds a coverage-guided native fuzz campaign over byte-coded operation scripts (FuzzOps64)',
     'generated histories compared step by step with a model', 'trusted: interval-set model; independent 64-bit decoder for whole-bucket contents', SER_ASSUME, run='^TestC17(Agg)?$', fuzz=[('p64', 'FuzzOps64', 120)])

prop('C18', 'p64', 'fault_enumeration',
     'per rapid-generated roaring64 bitmap (0..3 buckets from {0,1,2,0x7FFFFFFF,0xFFFFFFFE,0xFFFFFFFF}, then 0-4 range mutations): writers agree (ToBytes/WriteTo/MarshalBinary/ToBase64), size == GetSerializedSizeInBytes == n, an independent decoder of the 64-bit layout reads the bytes back to the model, '
     'ReadFrom (counting reader delivering drawn piece sizes from {1,2,3,4,5,7,8,13,4096}, optionally the last piece together with EOF) / FromUnsafeBytes / UnmarshalBinary / FromBase64 with trailing garbage give an Equal, validating, still-working bitmap and consume exactly the serialization; then fault enumeration: EVERY proper prefix (<=1024 bytes; else 200 random cuts + header cuts) through all four entry points, '
     'bucket-count corruptions {0, n-1, n+1, n+2, 1000} in process and {2^31, 2^33, 2^62, 2^64-1} in a CHILD PROCESS under a 4 GiB address-space limit (death, panic or >60 s = violation), duplicate/descending bucket keys, inner cookie/count/byte corruptions. '
     'Non-trivial = >=2 buckets or a damaged stream beyond the count; distinct = FNV-64 of the set description',
     T(8, 60, 16, 1200),
     'property-based round-trip testing + structured fault enumeration with child-process isolation for attacker-sized counts',
     'generated round trips; truncations exhaustive up to 1 KiB per base stream; count corruptions enumerated from a fixed list',
     'trusted: independent 64-bit codec; RLIMIT_AS semantics', SER_ASSUME, run='^TestC18$', fuzz=[('p64', 'FuzzDecode64', 120)])

BSI_ASSUME = ['the BSI reference model is a map column -> math/big.Int maintained by the harness', 'values and comparison constants are kept inside the range the index was created or auto-sized for (documented precondition)',
              'known findings (KNOWN_FINDINGS.json) are excluded by construction and counted under classes "avoided:*"; their literal inputs are re-run by TestRegress* and reported as KNOWN-FINDING lines while they reproduce']

prop('C19', 'pbsi', 'exploration',
     'rapid state machine over (index, map column->big.Int), run for roaring64.BSI and BitSliceIndexing.BSI: SetValue, SetBigValue (64, values up to +-9*2^100), SetMany, ClearValues, Retain (64), ParOr of 1-3 separately built indexes on free columns with their own widths and worker counts {0,1,2,5}, Increment/IncrementAll/Add (only while all values are non-negative and in range), '
     'SetManyComb (4097-6000 scattered columns in one chunk) and ClearRange (run-shaped found-set, ends on word edges), Clone / NewBSIRetainSet (continue on the copy, originals re-checked at the end), operands of Add/ParOr kept with their own maps (re-checked at the end, re-used by later Add calls), MarshalBinary->UnmarshalBinary, WriteTo->ReadFrom (64; also into an index that already holds other values), RunOptimize; flavours: auto-sized and fixed NewBSI(max,min) with values inside [min,max]; columns in several chunks/buckets incl. 2^32-1 and (64) up to 2^64-1. '
     'After every step: ValueExists/GetValue/GetBigValue for every column of the universe (present and absent), GetCardinality, GetValues/GetBigValues with duplicate and missing ids (64), Equals between copy and original (64). Non-trivial = history contains a negative value, a widening, and a copy/serialization step after both; distinct = FNV-64 of the history',
     T(4, 1500, 16, 20000),
     'model-based stateful property testing of both BSI implementations against a column->big.Int map',
     'generated histories compared step by step with a model', 'trusted: map model', BSI_ASSUME, run='^TestC19')

prop('C20', 'pbsi', 'exploration',
     'rapid draws a stored map (0..12 columns, values from a 4-value pool so that duplicates occur; extremes of the width; single column; empty), flavour (auto / fixed), RunOptimize on/off, a found-set {nil, all, random subset, single column, the existence set} and a worker count from {0,1,2,5,16}; for both implementations: '
     'CompareValue for 6 random (op, constants) per case with constants = stored values +-1, range edges, clamped to the representable range; BatchEqual (+BatchEqualBig, BatchEqualValues on 64); MinMax/MinMaxBig over non-empty found-sets; Sum/SumBigValues; IntersectAndTranspose and TransposeWithCounts for non-negative values inside the result universe; CompareBSI (64) for LT..GT against a second generated index; '
     'then a bitmap returned by a query is mutated and the index must be unchanged. TestC20Block64/32 (about 1 case in 60): indexes holding a whole 65536-column chunk with 1-3 piecewise-constant values (+ tail), run-optimized; CompareValue x found-set {nil, all, sub-range}, MinMax, BatchEqual, result scribbling, expected columns computed per piece, index re-read after every query. TestC20Wide64: indexes wider than 64 planes (SetBigValue), CompareBigValue with constants up to both ends of the representable range, MinMaxBig, SumBigValues. Oracle = the predicate / extremum / sum / histogram evaluated on the map restricted to the found-set. Non-trivial = >=3 columns, >=2 distinct values and a proper-subset found-set, or mixed signs; distinct = FNV-64 of (map, found-set, workers)',
     T(4, 3000, 16, 40000),
     'property-based differential testing of BSI queries against predicates evaluated on a map model',
     'generated-input search with an independent model as oracle', 'trusted: map model', BSI_ASSUME, run='^TestC20')

prop('C12', 'pconc', 'exploration',
     'three rapid properties in a binary built with -race (checkptr off, because the library\'s unaligned unsafe casts trip it): (1) ParOr/ParHeapOr/ParAnd/roaring64.ParOr over generated lists (0..6 members incl. empties and pointer duplicates, key windows of 1..260 keys at the bottom/middle/top of the key space: zero work items up to more items than every channel capacity) x workers {0,1,2,3,8,16} x GOMAXPROCS {1,2,4,16} x 1-3 repetitions x (half of the cases) a generated per-site delay table applied through the verif scheduling hook (nothing / Gosched / 5x Gosched / 20us / 300us sleep before each channel operation of the library), optionally two concurrent callers sharing the inputs (inputs re-checked against their models afterwards), result == sequential model fold; '
     '(2) 2..8 goroutines decode their own streams concurrently through ReadFrom (yielding readers, pooled adapters), FromBuffer and FromUnsafeBytes after 0..4 failing decodes, each result must equal its own source; (3) the goroutine-parallel BSI paths (CompareValue, Sum, MinMax, TransposeWithCounts, BatchEqual, ParOr, ClearValues, NewBSIRetainSet) on up to 400 columns vs directly computed answers. '
     'Every call runs under a 90 s watchdog (expiry = deadlock/hang, library goroutine stacks dumped), the goroutine count must return to its baseline, and any race-detector report fails the run. Non-trivial = the call took a parallel path (>=2 keys / >=2 decoders / >=2 columns and workers != 1); distinct = FNV-64 of (list, fn, workers, GOMAXPROCS)',
     T(8, 160, 16, 1200),
     'property-based testing under the Go race detector with generated worker counts / GOMAXPROCS, watchdog and goroutine-leak accounting',
     'schedules are SAMPLED (GOMAXPROCS x workers x repetition x yielding readers x generated delay tables at the library\'s channel operations), not enumerated; the race detector reports only races on executed paths',
     'trusted: Go race detector; interval-set model; the scheduling hook perturbs, it does not control, the Go scheduler', COMMON_ASSUME, race=True, run='^TestC12')
