"""Per-property configuration of the driver (packages, case counts, evidence texts)."""

def T(qs, qc, ts, tc, **kw):
    d = {'quick': dict(shards=qs, checks=qc), 'thorough': dict(shards=ts, checks=tc)}
    for k, v in kw.items():
        tier, key = k.split('_', 1)
        d[{'q': 'quick', 't': 'thorough'}[tier]][key] = v
    return d

PROPS = {}

def prop(pid, pkg, level, rule, tiers, technique, level_text, level_note, assumptions=(), **kw):
    PROPS[pid] = dict(pkg=pkg, level=level, rule=rule, technique=technique, level_text=level_text,
                      level_note=level_note, assumptions=list(assumptions), **tiers, **kw)

COMMON_ASSUME = [
    'the reference model (sorted interval list, harness/model) is correct: it is self-tested against a []bool universe on every run',
    'GODEBUG=clobberfree=1 + forced collections make lost references visible; memory errors that need other allocator states are not forced',
]

prop('C01', 'p32', 'exploration',
     'rapid draws (chunk shapes x requested kind per chunk x key alignment relation x storage form of each operand x op x static/in-place x self); '
     'a case is non-trivial when both operands are non-empty and share at least one chunk key; distinct = FNV-64 of the full case description (specs, forms, op)',
     T(4, 2500, 16, 40000),
     'property-based differential testing against an interval-set model (rapid), kinds forced through an independent encoder',
     'generated-input search: every op/form/kind pairing is constructed and compared with an independent model; no proof of absence',
     'trusted: interval-set model; independent portable/frozen encoders (anchored on the Java/C golden files)',
     COMMON_ASSUME)
