#!/bin/bash
# fuzzlong.sh <pkg> <FuzzTarget> <seconds> : a long native fuzz campaign (against $VERIF_REPO if set)
cd "$(dirname "$0")/../harness"; . ../env.sh
MF=""
if [ -n "$VERIF_REPO" ] && [ "$VERIF_REPO" != "/repo" ]; then
  mkdir -p ../.cache/fuzzmod; sed "s#=> /repo#=> $VERIF_REPO#" go.mod > ../.cache/fuzzmod/go.mod; cp go.sum ../.cache/fuzzmod/go.sum; MF="-modfile=$(cd ..; pwd)/.cache/fuzzmod/go.mod"
fi
[ -f go.sum ] || cp /repo/go.sum go.sum
GODEBUG=clobberfree=1 $VGO test $MF -tags verif -vet=off -run '^$' -fuzz "^$2\$" -fuzztime ${3}s -fuzzminimizetime 5s ./$1/ 2>&1 | tail -15
ls $1/testdata/fuzz/$2 2>/dev/null | head
