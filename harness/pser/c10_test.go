package pser

import (
	"bytes"
	"encoding/base64"
	"encoding/binary"
	"fmt"
	"sort"
	"strings"
	"testing"

	"github.com/RoaringBitmap/roaring/v2"
	"pgregory.net/rapid"

	"verifharness/gen"
	"verifharness/inst"
	"verifharness/live"
	"verifharness/model"
	"verifharness/spec"
)

// ---- decoding under observation ---------------------------------------------

type decodeResult struct {
	b      *roaring.Bitmap
	n      int64
	err    error
	panicV interface{}
	stack  string
}

const (
	eReadFrom = iota
	eFromBuffer
	eFromUnsafeBytes
	eUnmarshalBinary
	eFromBase64
	eFrozenView
	nEntries
)

var c10Entries = []string{"ReadFrom", "FromBuffer", "FromUnsafeBytes", "UnmarshalBinary", "FromBase64", "FrozenView"}

// decode runs one entry point on data. For the zero-copy entry points the bytes
// live flush against a PROT_NONE page (an over-read or under-read faults and is
// reported as a panic) and are read-only.
// usedReceiver: when set (by the property, for a whole case) decoding goes into a bitmap that has been used
// before - it holds other values, has been serialized and has answered Validate()==nil already.
var usedReceiver bool

func newReceiver() *roaring.Bitmap {
	if !usedReceiver {
		return roaring.New()
	}
	r := roaring.BitmapOf(3, 4, 5, 70000, 1<<31)
	r.AddRange(200000, 200900)
	r.RunOptimize()
	r.ToBytes()
	if err := r.Validate(); err != nil {
		panic("harness: receiver does not validate: " + err.Error())
	}
	return r
}

func decode(entry int, data []byte, atEnd bool) (res decodeResult, g *inst.Guard) {
	res.b = newReceiver()
	switch entry {
	case eFromBuffer, eFromUnsafeBytes, eFrozenView:
		g = inst.NewGuard(data, atEnd)
		g.ReadOnly()
	}
	restore := inst.FaultsAsPanics()
	defer restore()
	res.panicV, res.stack = inst.Try(func() {
		switch entry {
		case eReadFrom:
			res.n, res.err = res.b.ReadFrom(bytes.NewReader(data))
		case eFromBuffer:
			res.n, res.err = res.b.FromBuffer(g.Data)
		case eFromUnsafeBytes:
			res.n, res.err = res.b.FromUnsafeBytes(g.Data)
		case eUnmarshalBinary:
			res.err = res.b.UnmarshalBinary(data)
		case eFromBase64:
			res.n, res.err = res.b.FromBase64(base64.StdEncoding.EncodeToString(data))
		case eFrozenView:
			res.err = res.b.FrozenView(g.Data)
		}
	})
	return
}

// ---- the battery for accepted + validated input ---------------------------------

// battery checks that a bitmap which decoded and validated is a genuine set.
// The reference is the bitmap's own ToArray (it must be strictly increasing and
// chunk-consistent); everything else must agree with it.
func battery(t *rapid.T, b *roaring.Bitmap, what string) string {
	var msg string
	p, stack := inst.Try(func() { msg = batteryInner(t, b) })
	if p != nil {
		return fmt.Sprintf("panic while using a bitmap that decoded and validated: %v [%s]", p, stack)
	}
	return msg
}

func batteryInner(t *rapid.T, b *roaring.Bitmap) string {
	card := b.GetCardinality()
	if card > 1<<21 {
		return "" // too large to enumerate here; sizes are bounded by the generator
	}
	arr := b.ToArray()
	if uint64(len(arr)) != card {
		return fmt.Sprintf("ToArray has %d values, GetCardinality=%d", len(arr), card)
	}
	for i := 1; i < len(arr); i++ {
		if arr[i] <= arr[i-1] {
			return fmt.Sprintf("ToArray not strictly increasing at %d: %d after %d", i, arr[i], arr[i-1])
		}
	}
	// values lie inside their chunk's range
	pos := 0
	prevKey := -1
	for i, c := range b.VerifChunks() {
		if int(c.Key) <= prevKey {
			return fmt.Sprintf("chunk %d key %d not above %d", i, c.Key, prevKey)
		}
		prevKey = int(c.Key)
		if c.Card <= 0 || pos+c.Card > len(arr) {
			return fmt.Sprintf("chunk %d (key %d) claims %d values, ToArray has %d left", i, c.Key, c.Card, len(arr)-pos)
		}
		for _, v := range arr[pos : pos+c.Card] {
			if uint16(v>>16) != c.Key {
				return fmt.Sprintf("value %d listed for chunk key %d lies outside that chunk's range", v, c.Key)
			}
		}
		pos += c.Card
	}
	if pos != len(arr) {
		return fmt.Sprintf("chunks account for %d values, ToArray has %d", pos, len(arr))
	}
	m := model.FromValues32(arr)
	if d := live.Check(b, m); d != "" {
		return "contents: " + d
	}
	// queries
	if card > 0 {
		if uint64(b.Minimum()) != m.Min() || uint64(b.Maximum()) != m.Max() {
			return fmt.Sprintf("Minimum/Maximum=%d/%d, list says %d/%d", b.Minimum(), b.Maximum(), m.Min(), m.Max())
		}
	}
	for i := 0; i < 10; i++ {
		x := gen.Value32(t, "bat.x", m)
		if b.Contains(x) != m.Contains(uint64(x)) {
			return fmt.Sprintf("Contains(%d)=%v but ToArray says %v", x, b.Contains(x), m.Contains(uint64(x)))
		}
		if b.Rank(x) != m.Rank(uint64(x)) {
			return fmt.Sprintf("Rank(%d)=%d but ToArray says %d", x, b.Rank(x), m.Rank(uint64(x)))
		}
		lo, hi := uint64(x), uint64(x)+uint64(rapid.IntRange(0, 70000).Draw(t, "bat.w"))
		if hi > model.Max32+1 {
			hi = model.Max32 + 1
		}
		var w uint64
		if hi > lo {
			w = m.CountRange(lo, hi-1)
		}
		if g := b.CardinalityInRange(lo, hi); g != w {
			return fmt.Sprintf("CardinalityInRange(%d,%d)=%d but ToArray says %d", lo, hi, g, w)
		}
		if card > 0 {
			i := uint64(rapid.Uint64Range(0, card-1).Draw(t, "bat.sel"))
			if g, err := b.Select(uint32(i)); err != nil || g != arr[i] {
				return fmt.Sprintf("Select(%d)=%d,%v but ToArray[%d]=%d", i, g, err, i, arr[i])
			}
		}
	}
	// iterators
	it := b.Iterator()
	for i := 0; i < len(arr) && i < 70000; i++ {
		if !it.HasNext() {
			return fmt.Sprintf("Iterator ends after %d of %d values", i, len(arr))
		}
		if v := it.Next(); v != arr[i] {
			return fmt.Sprintf("Iterator value #%d = %d, ToArray says %d", i, v, arr[i])
		}
	}
	if len(arr) <= 70000 && it.HasNext() {
		return "Iterator has values beyond ToArray"
	}
	rit := b.ReverseIterator()
	for i := len(arr) - 1; i >= 0 && i > len(arr)-5000; i-- {
		if !rit.HasNext() {
			return "ReverseIterator ends early"
		}
		if v := rit.Next(); v != arr[i] {
			return fmt.Sprintf("ReverseIterator gives %d, ToArray says %d", v, arr[i])
		}
	}
	ri := 0
	ivs := m.Intervals()
	for s, e := range b.Ranges() {
		if ri >= len(ivs) || uint64(s) != ivs[ri].Lo || e != ivs[ri].Hi+1 {
			return fmt.Sprintf("Ranges() item %d = [%d,%d) does not match ToArray", ri, s, e)
		}
		ri++
	}
	if ri != len(ivs) {
		return fmt.Sprintf("Ranges() gave %d ranges, ToArray implies %d", ri, len(ivs))
	}
	// algebra with a valid partner
	ps, _ := gen.Related(t, "bat.partner", gen.FromSet(t, "bat.self", m, gen.KindsValid), gen.KindsValid)
	pl, err := live.Make(ps, live.Read)
	if err != nil {
		return "harness: " + err.Error()
	}
	for op := 0; op < 4; op++ {
		want := modelOp4(op, m, pl.Model)
		if d := live.Check(staticOp4(op, b, pl.B), want); d != "" {
			return fmt.Sprintf("%s with a valid partner: %s", opNames4[op], d)
		}
		want2 := modelOp4(op, pl.Model, m)
		if d := live.Check(staticOp4(op, pl.B, b), want2); d != "" {
			return fmt.Sprintf("%s (valid partner first): %s", opNames4[op], d)
		}
		c := b.Clone()
		inplaceOp4(op, c, pl.B)
		if d := live.Check(c, want); d != "" {
			return fmt.Sprintf("in-place %s with a valid partner: %s", opNames4[op], d)
		}
	}
	if g, w := b.AndCardinality(pl.B), model.And(m, pl.Model).Card(); g != w {
		return fmt.Sprintf("AndCardinality=%d want %d", g, w)
	}
	// re-serialization round trip
	by, err := b.ToBytes()
	if err != nil {
		return fmt.Sprintf("a decoded+validated bitmap cannot be re-serialized: %v", err)
	}
	rb := roaring.New()
	if _, err := rb.ReadFrom(bytes.NewReader(by)); err != nil {
		return fmt.Sprintf("re-serialized bytes are rejected: %v", err)
	}
	if !rb.Equals(b) {
		return "re-serialization does not round-trip (not Equals)"
	}
	if d := live.Check(rb, m); d != "" {
		return "re-serialization round trip contents: " + d
	}
	return ""
}

var opNames4 = []string{"And", "Or", "Xor", "AndNot"}

func modelOp4(op int, a, b *model.Set) *model.Set {
	switch op {
	case 0:
		return model.And(a, b)
	case 1:
		return model.Or(a, b)
	case 2:
		return model.Xor(a, b)
	}
	return model.AndNot(a, b)
}

func staticOp4(op int, a, b *roaring.Bitmap) *roaring.Bitmap {
	switch op {
	case 0:
		return roaring.And(a, b)
	case 1:
		return roaring.Or(a, b)
	case 2:
		return roaring.Xor(a, b)
	}
	return roaring.AndNot(a, b)
}

func inplaceOp4(op int, a, b *roaring.Bitmap) {
	switch op {
	case 0:
		a.And(b)
	case 1:
		a.Or(b)
	case 2:
		a.Xor(b)
	default:
		a.AndNot(b)
	}
}

// ---- the corruption catalogue -----------------------------------------------------

type mutant struct {
	name string
	data []byte
}

func put16(b []byte, off int, v uint16) { binary.LittleEndian.PutUint16(b[off:], v) }
func get16(b []byte, off int) uint16    { return binary.LittleEndian.Uint16(b[off:]) }

// portableMutants applies one structured corruption at a time to a valid portable stream.
func portableMutants(t *rapid.T, enc []byte, lay spec.Layout, chunks []spec.Chunk) []mutant {
	var out []mutant
	add := func(name string, f func(b []byte) []byte) {
		c := append([]byte(nil), enc...)
		if r := f(c); r != nil {
			out = append(out, mutant{name, r})
		}
	}
	n := lay.N
	// cookie / count
	add("cookie:zero", func(b []byte) []byte { b[0], b[1] = 0, 0; return b })
	add("cookie:frozen", func(b []byte) []byte { put16(b, 0, 13766); return b })
	add("cookie:swap-kind", func(b []byte) []byte {
		if lay.HasRunCookie {
			put16(b, 0, 12346)
		} else {
			put16(b, 0, 12347)
		}
		return b
	})
	for _, d := range []int{-1, 1, 3, 1000, 65535} {
		d := d
		add(fmt.Sprintf("count:%+d", d), func(b []byte) []byte {
			if lay.HasRunCookie {
				put16(b, 2, uint16(int(get16(b, 2))+d))
			} else {
				binary.LittleEndian.PutUint32(b[4:], uint32(int(binary.LittleEndian.Uint32(b[4:]))+d))
			}
			return b
		})
	}
	if !lay.HasRunCookie {
		for _, v := range []uint32{65536, 65537, 1 << 24, 1<<31 - 1, 1 << 31, 0xFFFFFFFF} {
			v := v
			add(fmt.Sprintf("count:=%d", v), func(b []byte) []byte { binary.LittleEndian.PutUint32(b[4:], v); return b })
		}
	}
	if n == 0 {
		return out
	}
	ci := rapid.IntRange(0, n-1).Draw(t, "mut.chunk")
	c := chunks[ci]
	// run flags
	if lay.RunFlagsOff >= 0 {
		add("runflag:flip", func(b []byte) []byte { b[lay.RunFlagsOff+ci/8] ^= 1 << (ci % 8); return b })
		add("runflag:all-set", func(b []byte) []byte {
			for i := 0; i < (n+7)/8; i++ {
				b[lay.RunFlagsOff+i] = 0xFF
			}
			return b
		})
	}
	// keys
	if n >= 2 {
		cj := (ci + 1) % n
		add("keys:swap", func(b []byte) []byte {
			ki, kj := get16(b, lay.DescOff+4*ci), get16(b, lay.DescOff+4*cj)
			put16(b, lay.DescOff+4*ci, kj)
			put16(b, lay.DescOff+4*cj, ki)
			return b
		})
		add("keys:duplicate", func(b []byte) []byte {
			put16(b, lay.DescOff+4*cj, get16(b, lay.DescOff+4*ci))
			return b
		})
		add("keys:descending-last", func(b []byte) []byte { put16(b, lay.DescOff+4*(n-1), 0); return b })
	}
	// cardinality field vs payload
	for _, d := range []int{-1, 1, 100} {
		d := d
		add(fmt.Sprintf("card:%+d", d), func(b []byte) []byte {
			put16(b, lay.DescOff+4*ci+2, uint16(int(get16(b, lay.DescOff+4*ci+2))+d))
			return b
		})
	}
	add("card:=65535", func(b []byte) []byte { put16(b, lay.DescOff+4*ci+2, 65535); return b })
	add("card:=4096(bitmap threshold)", func(b []byte) []byte { put16(b, lay.DescOff+4*ci+2, 4096); return b })
	add("card:=4095", func(b []byte) []byte { put16(b, lay.DescOff+4*ci+2, 4095); return b })
	// offsets
	if lay.OffsetsOff >= 0 {
		add("offset:garbage", func(b []byte) []byte {
			binary.LittleEndian.PutUint32(b[lay.OffsetsOff+4*ci:], 0xFFFFFFF0)
			return b
		})
		add("offset:zero", func(b []byte) []byte { binary.LittleEndian.PutUint32(b[lay.OffsetsOff+4*ci:], 0); return b })
	}
	po, pl := lay.PayloadOff[ci], lay.PayloadLen[ci]
	switch c.Kind {
	case spec.Run:
		nr := len(c.Ivs)
		add("run:count+1", func(b []byte) []byte { put16(b, po, uint16(nr+1)); return b })
		add("run:count-1", func(b []byte) []byte { put16(b, po, uint16(nr-1)); return b })
		add("run:count=0", func(b []byte) []byte { put16(b, po, 0); return b })
		add("run:count=65535", func(b []byte) []byte { put16(b, po, 65535); return b })
		ri := rapid.IntRange(0, nr-1).Draw(t, "mut.run")
		add("run:wrapping(start+len>65535)", func(b []byte) []byte {
			st := get16(b, po+2+4*ri)
			put16(b, po+2+4*ri+2, uint16(65535-int(st)+1+rapid.IntRange(0, 40).Draw(t, "mut.wrapby")))
			return b
		})
		add("run:last-wraps(start=65535,len=10)", func(b []byte) []byte {
			put16(b, po+2+4*(nr-1), 65535)
			put16(b, po+2+4*(nr-1)+2, 10)
			return b
		})
		add("run:len=65535", func(b []byte) []byte { put16(b, po+2+4*ri+2, 65535); return b })
		if nr >= 2 {
			rj := ri
			if rj == nr-1 {
				rj--
			}
			add("run:overlapping", func(b []byte) []byte {
				// make run rj reach into run rj+1
				st, nst := get16(b, po+2+4*rj), get16(b, po+2+4*(rj+1))
				put16(b, po+2+4*rj+2, nst-st+1)
				return b
			})
			add("run:overlap-by-one-value", func(b []byte) []byte {
				// run rj ends exactly on the first value of run rj+1
				st, nst := get16(b, po+2+4*rj), get16(b, po+2+4*(rj+1))
				put16(b, po+2+4*rj+2, nst-st)
				return b
			})
			add("run:next-start-pulled-back", func(b []byte) []byte {
				// run rj+1 starts on the last value of run rj (its end stays where it was)
				st, ln := get16(b, po+2+4*rj), get16(b, po+2+4*rj+2)
				nst, nln := get16(b, po+2+4*(rj+1)), get16(b, po+2+4*(rj+1)+2)
				back := rapid.IntRange(0, int(ln)).Draw(t, "mut.back")
				ns := st + ln - uint16(back)
				put16(b, po+2+4*(rj+1), ns)
				put16(b, po+2+4*(rj+1)+2, nst+nln-ns)
				return b
			})
			add("run:adjacent", func(b []byte) []byte {
				st, nst := get16(b, po+2+4*rj), get16(b, po+2+4*(rj+1))
				put16(b, po+2+4*rj+2, nst-st-1)
				return b
			})
			add("run:unsorted(swap two runs)", func(b []byte) []byte {
				var tmp [4]byte
				copy(tmp[:], b[po+2+4*rj:])
				copy(b[po+2+4*rj:po+2+4*rj+4], b[po+2+4*(rj+1):po+2+4*(rj+1)+4])
				copy(b[po+2+4*(rj+1):], tmp[:])
				return b
			})
			add("run:duplicate", func(b []byte) []byte {
				copy(b[po+2+4*(rj+1):po+2+4*(rj+1)+4], b[po+2+4*rj:po+2+4*rj+4])
				return b
			})
		}
	case spec.Array:
		cnt := pl / 2
		if cnt >= 2 {
			ai := rapid.IntRange(0, cnt-2).Draw(t, "mut.arr")
			add("array:unsorted(swap)", func(b []byte) []byte {
				x, y := get16(b, po+2*ai), get16(b, po+2*ai+2)
				put16(b, po+2*ai, y)
				put16(b, po+2*ai+2, x)
				return b
			})
			add("array:duplicate", func(b []byte) []byte { put16(b, po+2*ai+2, get16(b, po+2*ai)); return b })
			add("array:last=0", func(b []byte) []byte { put16(b, po+2*(cnt-1), 0); return b })
		}
	case spec.Bitmap:
		wi := rapid.IntRange(0, 1023).Draw(t, "mut.word")
		add("bitmap:flip-bit(cardinality mismatch)", func(b []byte) []byte { b[po+8*wi] ^= 1; return b })
		add("bitmap:clear-words(few bits left)", func(b []byte) []byte {
			for i := 16; i < pl; i++ {
				b[po+i] = 0
			}
			return b
		})
		add("bitmap:all-ones", func(b []byte) []byte {
			for i := 0; i < pl; i++ {
				b[po+i] = 0xFF
			}
			return b
		})
	}
	// a byte-level mutation somewhere in the header region, and one anywhere
	hdrEnd := lay.PayloadOff[0]
	add("byte:header", func(b []byte) []byte {
		i := rapid.IntRange(0, hdrEnd-1).Draw(t, "mut.hbyte")
		b[i] ^= byte(rapid.IntRange(1, 255).Draw(t, "mut.hxor"))
		return b
	})
	add("byte:any", func(b []byte) []byte {
		i := rapid.IntRange(0, len(b)-1).Draw(t, "mut.abyte")
		b[i] ^= byte(rapid.IntRange(1, 255).Draw(t, "mut.axor"))
		return b
	})
	return out
}

// frozenMutants corrupts a valid frozen buffer one field at a time.
func frozenMutants(t *rapid.T, fr []byte, chunks []spec.Chunk) []mutant {
	var out []mutant
	n := len(chunks)
	add := func(name string, f func(b []byte) []byte) {
		c := append([]byte(nil), fr...)
		if r := f(c); r != nil {
			out = append(out, mutant{name, r})
		}
	}
	h := len(fr) - 4
	add("frozen:cookie", func(b []byte) []byte { b[h] ^= 0x55; return b })
	for _, d := range []int{-1, 1, 7, 70000} {
		d := d
		add(fmt.Sprintf("frozen:count%+d", d), func(b []byte) []byte {
			v := binary.LittleEndian.Uint32(b[h:])
			binary.LittleEndian.PutUint32(b[h:], (v&0x7fff)|uint32(int(v>>15)+d)<<15)
			return b
		})
	}
	add("frozen:count=65537", func(b []byte) []byte {
		binary.LittleEndian.PutUint32(b[h:], 13766|65537<<15)
		return b
	})
	add("frozen:truncate-front", func(b []byte) []byte {
		if len(b) > 6 {
			return b[rapid.IntRange(1, len(b)-5).Draw(t, "mut.cut"):]
		}
		return nil
	})
	add("frozen:extra-front", func(b []byte) []byte { return append([]byte{1, 2, 3}, b...) })
	if n == 0 {
		return out
	}
	ci := rapid.IntRange(0, n-1).Draw(t, "mut.fchunk")
	types := h - n
	counts := types - 2*n
	keys := counts - 2*n
	for _, tc := range []byte{0, 1, 2, 3, 4, 255} {
		tc := tc
		add(fmt.Sprintf("frozen:typecode=%d", tc), func(b []byte) []byte {
			if b[types+ci] == tc {
				return nil
			}
			b[types+ci] = tc
			return b
		})
	}
	for _, d := range []int{-1, 1, 1000} {
		d := d
		add(fmt.Sprintf("frozen:count-field%+d", d), func(b []byte) []byte {
			put16(b, counts+2*ci, uint16(int(get16(b, counts+2*ci))+d))
			return b
		})
	}
	add("frozen:count-field=65535", func(b []byte) []byte { put16(b, counts+2*ci, 65535); return b })
	if n >= 2 {
		cj := (ci + 1) % n
		add("frozen:keys-swap", func(b []byte) []byte {
			x, y := get16(b, keys+2*ci), get16(b, keys+2*cj)
			put16(b, keys+2*ci, y)
			put16(b, keys+2*cj, x)
			return b
		})
		add("frozen:keys-duplicate", func(b []byte) []byte { put16(b, keys+2*cj, get16(b, keys+2*ci)); return b })
	}
	add("frozen:byte-any", func(b []byte) []byte {
		i := rapid.IntRange(0, len(b)-1).Draw(t, "mut.fbyte")
		b[i] ^= byte(rapid.IntRange(1, 255).Draw(t, "mut.fxor"))
		return b
	})
	return out
}

// ---- the property ----------------------------------------------------------------------

func c10Check(t *rapid.T, what string, entry int, data []byte, mustError bool) (accepted bool) {
	atEnd := len(data)%2 == 0
	res, g := decode(entry, data, atEnd)
	if g != nil {
		defer g.Free()
	}
	if res.panicV != nil {
		t.Fatalf("%s(%s, %d bytes) panicked instead of returning an error: %v\n  stack: %s\n  bytes(head)=%x", c10Entries[entry], what, len(data), res.panicV, res.stack, head(data, 48))
	}
	if res.err != nil {
		return false
	}
	if mustError {
		t.Fatalf("%s accepted %s (%d bytes) without an error", c10Entries[entry], what, len(data))
	}
	inst.Count("C10", "decoded-ok:"+strings.SplitN(what, ":", 2)[0])
	var verr error
	if p, st := inst.Try(func() { verr = res.b.Validate() }); p != nil {
		t.Fatalf("Validate() panicked on the result of %s(%s): %v [%s]", c10Entries[entry], what, p, st)
	}
	if verr != nil {
		return false
	}
	inst.Count("C10", "decoded+validated:"+strings.SplitN(what, ":", 2)[0])
	if msg := battery(t, res.b, what); msg != "" {
		t.Fatalf("%s(%s) returned no error and Validate()==nil, but the bitmap is not a genuine set: %s\n  bytes(head)=%x", c10Entries[entry], what, msg, head(data, 64))
	}
	return true
}

func head(b []byte, n int) []byte {
	if len(b) > n {
		return b[:n]
	}
	return b
}

// mustReadFromCheck compares MustReadFrom with ReadFrom+Validate on a fresh receiver.
func mustReadFromCheck(t *rapid.T, what string, data []byte) {
	ref := roaring.New()
	var rn int64
	var rerr, verr error
	if p, _ := inst.Try(func() { rn, rerr = ref.ReadFrom(bytes.NewReader(data)) }); p != nil {
		return // reported by the decoder check
	}
	if rerr == nil {
		if p, _ := inst.Try(func() { verr = ref.Validate() }); p != nil {
			return
		}
	}
	mb := roaring.New()
	var mn int64
	var merr error
	p, st := inst.Try(func() { mn, merr = mb.MustReadFrom(bytes.NewReader(data)) })
	switch {
	case rerr == nil && verr == nil:
		if p != nil {
			t.Fatalf("MustReadFrom(%s) panicked on a valid stream: %v [%s]", what, p, st)
		}
		if mn != rn || merr != nil {
			t.Fatalf("MustReadFrom(%s) returned (%d,%v); ReadFrom returns (%d,nil)", what, mn, merr, rn)
		}
		inst.Count("C10", "mustreadfrom:valid")
	case rerr == nil && verr != nil:
		if p == nil {
			t.Fatalf("MustReadFrom(%s) returned (%d,%v) although Validate() fails with %q: it must panic with the validation error", what, mn, merr, verr)
		}
		if e, ok := p.(error); !ok || e.Error() != verr.Error() {
			t.Fatalf("MustReadFrom(%s) panicked with %v, want the validation error %q", what, p, verr)
		}
		inst.Count("C10", "mustreadfrom:invalid->panic")
	default: // undecodable
		if p != nil {
			if _, isErr := p.(error); !isErr {
				t.Fatalf("MustReadFrom(%s) panicked with a non-validation value on an undecodable stream: %v [%s]", what, p, st)
			}
			inst.Count("C10", "mustreadfrom:undecodable->validation-panic(tolerated)")
			return
		}
		if merr == nil || mn != rn {
			t.Fatalf("MustReadFrom(%s) returned (%d,%v); ReadFrom returns (%d,%v)", what, mn, merr, rn, rerr)
		}
		inst.Count("C10", "mustreadfrom:undecodable")
	}
}

func propC10(t *rapid.T) {
	usedReceiver = rapid.IntRange(0, 2).Draw(t, "usedReceiver") == 1
	defer func() { usedReceiver = false }()
	if usedReceiver {
		inst.Count("C10", "decoding-into-used-receivers")
	}
	bs := gen.Bitmap(t, "S", gen.KindsAnyLegal, false)
	if len(bs.Chunks) > 10 {
		bs.Chunks, bs.Shapes = bs.Chunks[:10], bs.Shapes[:10]
	}
	for i := range bs.Chunks {
		// the library's run validation is quadratic in the number of runs: keep run chunks small here
		if bs.Chunks[i].Kind == spec.Run && len(bs.Chunks[i].Ivs) > 150 {
			bs.Chunks[i].Kind = spec.NaturalKind(bs.Chunks[i].Card())
		}
	}
	opts := spec.EncOpts{ForceRunCookie: rapid.Bool().Draw(t, "forceRunCookie")}
	enc, lay := spec.EncodePortable(bs.Chunks, opts)
	desc := fmt.Sprintf("%s (%d bytes)", bs, len(enc))
	reached := false

	// (1) the valid stream itself
	for e := 0; e < eFrozenView; e++ {
		c10Check(t, "valid:"+desc, e, enc, false)
	}
	mustReadFromCheck(t, "valid:"+desc, enc)

	// (2) every proper prefix is rejected
	var cuts []int
	if len(enc) <= 2048 {
		for k := 0; k < len(enc); k++ {
			cuts = append(cuts, k)
		}
	} else {
		seen := map[int]bool{}
		add := func(k int) {
			if k >= 0 && k < len(enc) && !seen[k] {
				seen[k] = true
				cuts = append(cuts, k)
			}
		}
		for _, o := range append([]int{0, 4, 8, lay.DescOff, lay.OffsetsOff, len(enc) - 1}, lay.PayloadOff...) {
			for d := -2; d <= 2; d++ {
				add(o + d)
			}
		}
		for i := 0; i < 256; i++ {
			add(rapid.IntRange(0, len(enc)-1).Draw(t, "cut"))
		}
	}
	for _, k := range cuts {
		for e := 0; e < eFrozenView; e++ {
			c10Check(t, fmt.Sprintf("prefix:%d/%d of %s", k, len(enc), desc), e, enc[:k], true)
		}
	}
	// the same prefixes as sub-slices data[:k] of the complete stream (cap > len: the rest of the valid
	// stream follows in memory; a decoder must respect len, not cap)
	{
		g := inst.NewGuard(enc, true)
		g.ReadOnly()
		restore := inst.FaultsAsPanics()
		step := len(cuts)/300 + 1
		for ci := 0; ci < len(cuts); ci += step {
			k := cuts[ci]
			for _, e := range []int{eFromBuffer, eFromUnsafeBytes} {
				b := roaring.New()
				var err error
				p, st := inst.Try(func() {
					if e == eFromBuffer {
						_, err = b.FromBuffer(g.Data[:k])
					} else {
						_, err = b.FromUnsafeBytes(g.Data[:k])
					}
				})
				if p != nil {
					t.Fatalf("%s(data[:%d]) of a %d-byte stream panicked: %v [%s]", c10Entries[e], k, len(enc), p, st)
				}
				if err == nil {
					t.Fatalf("%s accepted data[:%d], a proper prefix (cap > len) of a valid %d-byte stream: it read beyond the slice it was given", c10Entries[e], k, len(enc))
				}
			}
		}
		restore()
		g.Free()
		inst.Count("C10", "prefix-subslice-decodes")
	}
	inst.CountN("C10", "prefix-decodes", 5*len(cuts))
	if len(cuts) > 0 {
		k := cuts[rapid.IntRange(0, len(cuts)-1).Draw(t, "mrfcut")]
		mustReadFromCheck(t, fmt.Sprintf("prefix:%d/%d", k, len(enc)), enc[:k])
	}

	// (3) the corruption catalogue, one item at a time, through every entry point
	for _, mu := range portableMutants(t, enc, lay, bs.Chunks) {
		for e := 0; e < eFrozenView; e++ {
			c10Check(t, "corrupt:"+mu.name+" of "+desc, e, mu.data, false)
		}
		mustReadFromCheck(t, "corrupt:"+mu.name, mu.data)
		inst.Count("C10", "mutant:"+strings.SplitN(mu.name, "(", 2)[0])
		reached = true
	}

	// (4) frozen bytes: valid, truncated, corrupted
	fr := spec.EncodeFrozen(bs.Chunks)
	c10Check(t, "frozen-valid:"+desc, eFrozenView, fr, false)
	for _, mu := range frozenMutants(t, fr, bs.Chunks) {
		c10Check(t, "frozen-corrupt:"+mu.name+" of "+desc, eFrozenView, mu.data, false)
		inst.Count("C10", "mutant:"+mu.name)
	}
	// structurally consistent frozen buffers whose type codes contradict the cardinality
	// (the frozen layout states the kind explicitly, so any kind can be claimed for any chunk)
	if len(bs.Chunks) > 0 {
		ci := rapid.IntRange(0, len(bs.Chunks)-1).Draw(t, "forcekind.chunk")
		for _, k := range []spec.Kind{spec.Bitmap, spec.Array, spec.Run} {
			if bs.Chunks[ci].Kind == k {
				continue
			}
			forced := append([]spec.Chunk(nil), bs.Chunks...)
			forced[ci].Kind = k
			if k == spec.Run && len(forced[ci].Ivs) > 65535 {
				continue
			}
			name := fmt.Sprintf("frozen-forced-kind:%s for a chunk of %d values", k, forced[ci].Card())
			c10Check(t, name+" of "+desc, eFrozenView, spec.EncodeFrozen(forced), false)
			inst.Count("C10", "mutant:frozen-forced-kind:"+k.String())
		}
	}
	// the array/bitmap threshold itself, stated with either type code
	{
		key := uint16(0)
		src := model.New()
		src.AddRange(0, 65535)
		if len(bs.Chunks) > 0 {
			ci := rapid.IntRange(0, len(bs.Chunks)-1).Draw(t, "thr.chunk")
			key = bs.Chunks[ci].Key
			if bs.Chunks[ci].Card() >= 4097 {
				src = model.FromIntervals(bs.Chunks[ci].Ivs)
			}
		}
		for _, n := range []uint64{4095, 4096, 4097} {
			last, _ := src.Select(n - 1)
			ivs := src.Window(0, last).Intervals()
			for _, k := range []spec.Kind{spec.Bitmap, spec.Array} {
				others := []spec.Chunk{}
				for _, c := range bs.Chunks {
					if c.Key != key {
						others = append(others, c)
					}
				}
				forced := append(others, spec.Chunk{Key: key, Kind: k, Ivs: ivs})
				sortChunks(forced)
				c10Check(t, fmt.Sprintf("frozen-threshold:%s chunk with exactly %d values", k, n), eFrozenView, spec.EncodeFrozen(forced), false)
				inst.Count("C10", fmt.Sprintf("mutant:frozen-threshold:%s/%d", k, n))
			}
		}
	}
	// a portable stream given to FrozenView and a frozen one to the portable readers
	c10Check(t, "cross:portable-bytes", eFrozenView, enc, false)
	c10Check(t, "cross:frozen-bytes", eFromBuffer, fr, false)
	c10Check(t, "cross:frozen-bytes", eReadFrom, fr, false)

	// (5) noise
	nz := rapid.SliceOfN(rapid.Byte(), 0, 64).Draw(t, "noise")
	for e := 0; e < nEntries; e++ {
		c10Check(t, "noise:", e, nz, false)
	}
	inst.Case("C10", reached, desc)
}

func TestC10(t *testing.T) { rapid.Check(t, propC10) }

// the crash-prone inputs shipped with the repository, through every entry point
func TestRegressC10RepoInputs(t *testing.T) {
	rapid.Check(t, func(t *rapid.T) {
		for _, f := range []string{"crashproneinput1.bin", "crashproneinput2.bin", "crashproneinput3.bin", "crashproneinput4.bin", "crashproneinput5.bin",
			"crashproneinput6.bin", "crashproneinput7.bin", "crashproneinput8.bin", "crashwithinvalidcookie.bin", "crashwithoutcookie.bin"} {
			data, err := readFile("/repo/testdata/" + f)
			if err != nil {
				t.Fatalf("%v", err)
			}
			for e := 0; e < nEntries; e++ {
				c10Check(t, "repo:"+f, e, data, false)
			}
		}
	})
}

func sortChunks(c []spec.Chunk) {
	sort.Slice(c, func(i, j int) bool { return c[i].Key < c[j].Key })
}
