package pser

import (
	"bytes"
	"encoding/base64"
	"fmt"
	"runtime"
	"testing"

	"github.com/RoaringBitmap/roaring/v2"
	"pgregory.net/rapid"

	"verifharness/gen"
	"verifharness/inst"
	"verifharness/live"
	"verifharness/spec"
)

var entryNames = []string{"ReadFrom", "FromBuffer", "FromUnsafeBytes", "UnmarshalBinary", "FromBase64"}

func propC05(t *rapid.T) {
	lv, desc := live.History(t, "S", true)
	b, m := lv.B, lv.Model
	fail := func(format string, a ...interface{}) {
		t.Fatalf("%s\n  set=%s\n  [%s]", fmt.Sprintf(format, a...), m, desc)
	}
	if lv.Form == live.Frozen {
		runtime.GC()
	}
	origValid := b.Validate() == nil

	// --- writers agree, byte accounting
	by, err := b.ToBytes()
	if err != nil {
		fail("ToBytes: %v", err)
	}
	var wbuf bytes.Buffer
	n, err := b.WriteTo(&wbuf)
	if err != nil {
		fail("WriteTo: %v", err)
	}
	if !bytes.Equal(wbuf.Bytes(), by) {
		fail("WriteTo bytes differ from ToBytes")
	}
	if int(n) != len(by) {
		fail("WriteTo returned %d, wrote %d bytes", n, len(by))
	}
	if g := b.GetSerializedSizeInBytes(); g != uint64(len(by)) {
		fail("GetSerializedSizeInBytes=%d but %d bytes written", g, len(by))
	}
	mb, err := b.MarshalBinary()
	if err != nil || !bytes.Equal(mb, by) {
		fail("MarshalBinary differs from ToBytes (err=%v)", err)
	}
	b64, err := b.ToBase64()
	if err != nil {
		fail("ToBase64: %v", err)
	}
	if dec, err := base64.StdEncoding.DecodeString(b64); err != nil || !bytes.Equal(dec, by) {
		fail("ToBase64 does not decode to ToBytes (err=%v)", err)
	}

	// --- read back
	entry := rapid.IntRange(0, 4).Draw(t, "entry")
	recvClass := rapid.IntRange(0, 3).Draw(t, "receiver")
	garbage := rapid.SampledFrom([]int{0, 0, 1, 3, 4, 8, 100}).Draw(t, "garbage")
	stream := append(append([]byte(nil), by...), bytes.Repeat([]byte{0x3B, 0x30, 0xFF, 0x00, 0xA7}, garbage)[:garbage]...)
	var recv *roaring.Bitmap
	var oldLive *live.Live
	recvName := ""
	switch recvClass {
	case 0:
		recv, recvName = roaring.New(), "fresh"
	case 1:
		os := gen.Bitmap(t, "old", gen.KindsValid, true)
		oldLive, _ = live.Make(os, live.Built)
		recv, recvName = oldLive.B, fmt.Sprintf("reused(previously %d chunks built)", len(os.Chunks))
	case 2:
		os := gen.Bitmap(t, "old", gen.KindsValid, false)
		zf := rapid.SampledFrom([]live.Form{live.Buffer, live.Unsafe, live.Frozen}).Draw(t, "oldform")
		var err error
		oldLive, err = live.Make(os, zf)
		if err != nil {
			t.Fatalf("harness: %v", err)
		}
		recv, recvName = oldLive.B, fmt.Sprintf("reused(previously zero-copy %s, %d chunks)", zf, len(os.Chunks))
	default:
		recv = roaring.BitmapOf(1, 2, 70000)
		recv.SetCopyOnWrite(true)
		recvName = "reused(copy-on-write on)"
	}
	if recvClass != 0 {
		recv.ToBytes() // a used bitmap has typically been written before: anything it remembers from that is stale after the decode
		recv.GetSerializedSizeInBytes()
	}
	chunking := []int{1 << 20}
	cookieVariant := false
	var consumed int
	var rn int64
	switch entry {
	case 0:
		chunking = drawChunking(t, "chunking")
		r := &chunkReader{data: stream, sizes: chunking, eofWithData: garbage == 0 && rapid.Bool().Draw(t, "eofWithData")}
		if std := rapid.IntRange(0, 5).Draw(t, "stdReader"); std >= 4 {
			// the readers most programs use: *bytes.Buffer / *bytes.Reader over the caller's slice
			if std == 4 {
				bb := bytes.NewBuffer(stream)
				rn, err = recv.ReadFrom(bb)
				consumed = len(stream) - bb.Len()
				chunking = []int{-1}
			} else {
				br := bytes.NewReader(stream)
				rn, err = recv.ReadFrom(br)
				consumed = len(stream) - br.Len()
				chunking = []int{-2}
			}
			break
		}
		if len(stream) >= 4 && rapid.IntRange(0, 3).Draw(t, "cookieHeader") == 2 {
			// the documented variant for callers that have already consumed the 4-byte cookie
			r.pos = 4
			hdr := append([]byte(nil), stream[:4]...)
			if rapid.Bool().Draw(t, "must") && origValid {
				rn, err = recv.MustReadFrom(r, hdr...)
			} else {
				rn, err = recv.ReadFrom(r, hdr...)
			}
			chunking = append([]int{-4}, chunking...) // marks the variant in the description
			cookieVariant = true
		} else {
			rn, err = recv.ReadFrom(r)
		}
		consumed = r.pos
	case 1:
		rn, err = recv.FromBuffer(stream)
		consumed = int(rn)
	case 2:
		rn, err = recv.FromUnsafeBytes(stream)
		consumed = int(rn)
	case 3:
		err = recv.UnmarshalBinary(stream)
		rn, consumed = int64(len(by)), len(by)
	default:
		rn, err = recv.FromBase64(b64)
		consumed = int(rn)
	}
	edesc := fmt.Sprintf("%s chunking=%v receiver=%s garbage=%d", entryNames[entry], chunking, recvName, garbage)
	if err != nil {
		fail("%s: error %v", edesc, err)
	}
	if int(rn) != len(by) && !(cookieVariant && int(rn) == len(by)-4) {
		// (with a pre-read cookie the documentation does not say whether its 4 bytes are counted)
		fail("%s: returned n=%d, stream has %d bytes", edesc, rn, len(by))
	}
	if consumed != len(by) {
		fail("%s: consumed %d bytes of the stream, the serialization has %d", edesc, consumed, len(by))
	}
	if !recv.Equals(b) || !b.Equals(recv) {
		fail("%s: decoded bitmap not Equals the original", edesc)
	}
	if d := live.Check(recv, m); d != "" {
		fail("%s: decoded contents: %s", edesc, d)
	}
	if origValid {
		if err := recv.Validate(); err != nil {
			fail("%s: decoded bitmap fails Validate: %v", edesc, err)
		}
	}
	if oldLive != nil && !oldLive.BufferIntact() {
		fail("%s: reading into the reused receiver wrote to the buffer it previously viewed", edesc)
	}
	// written again, the decoded bitmap gives a conformant stream of the same set (independent decoder) of the announced size
	if rb2, err := recv.ToBytes(); err != nil {
		fail("%s: the decoded bitmap cannot be serialized again: %v", edesc, err)
	} else if ch2, used2, err := spec.DecodePortable(rb2, false); err != nil || used2 != len(rb2) || !spec.SetOf(ch2).Equal(m) {
		fail("%s: the decoded bitmap, serialized again, is not a conformant stream of the same set (err=%v)", edesc, err)
	} else if uint64(len(rb2)) != recv.GetSerializedSizeInBytes() {
		fail("%s: the decoded bitmap serializes to %d bytes, GetSerializedSizeInBytes=%d", edesc, len(rb2), recv.GetSerializedSizeInBytes())
	}
	if entry == 4 {
		// a second, unrelated FromBase64 must not disturb the bitmap decoded first
		other := roaring.BitmapOf(7, 8, 9, 1<<20)
		os64, _ := other.ToBase64()
		o2 := roaring.New()
		if _, err := o2.FromBase64(os64); err != nil || !o2.Equals(other) {
			fail("FromBase64 of a small bitmap: err=%v", err)
		}
		if d := live.Check(recv, m); d != "" {
			fail("%s: the bitmap decoded first changed when another bitmap was decoded from Base64 afterwards: %s", edesc, d)
		}
	}
	// the copying entry points must not keep the caller's bytes (encoding.BinaryUnmarshaler: "UnmarshalBinary
	// must copy the data if it wishes to retain the data after returning"; only the FromBuffer family is
	// documented as aliasing): overwrite them and look again
	if entry == 0 || entry == 3 {
		saved := append([]byte(nil), stream...)
		for i := range stream {
			stream[i] = 0xA5 ^ byte(i)
		}
		if d := live.Check(recv, m); d != "" {
			fail("%s: the decoded bitmap changed when the caller's input bytes were overwritten afterwards: %s", edesc, d)
		}
		copy(stream, saved)
	}
	// the decoded bitmap keeps working (zero-copy ones copy on write)
	if d := exercise(t, "post", recv, m, 4); d != "" {
		fail("%s: decoded bitmap misbehaves: %s", edesc, d)
	}
	if !bytes.Equal(stream[:len(by)], by) {
		fail("%s: operations on the decoded bitmap changed the caller's stream bytes", edesc)
	}
	runtime.KeepAlive(stream)
	runtime.KeepAlive(oldLive)

	// --- failing writer: every offset (bounded)
	var offsets []int
	if len(by) <= 4096 {
		for k := 0; k < len(by); k++ {
			offsets = append(offsets, k)
		}
	} else {
		_, lay := layoutOf(by)
		seen := map[int]bool{}
		add := func(k int) {
			if k >= 0 && k < len(by) && !seen[k] {
				seen[k] = true
				offsets = append(offsets, k)
			}
		}
		for _, o := range lay {
			add(o - 1)
			add(o)
			add(o + 1)
		}
		for i := 0; i < 128; i++ {
			add(rapid.IntRange(0, len(by)-1).Draw(t, "failoff"))
		}
	}
	for _, k := range offsets {
		for _, partial := range []bool{true, false} {
			fw := &failWriter{budget: k, partial: partial}
			if _, err := b.WriteTo(fw); err == nil {
				fail("WriteTo to a writer that fails after %d of %d bytes (partial=%v) returned a nil error", k, len(by), partial)
			}
		}
		if k > 0 {
			// the failure is reported by the very call that takes the k-th byte (n == len(p) together with an error)
			fw := &failWriter{budget: k, eager: true}
			if _, err := b.WriteTo(fw); err == nil && fw.budget == 0 {
				fail("WriteTo to a writer that accepts the first %d of %d bytes and reports its failure in the same call returned a nil error", k, len(by))
			}
		}
	}
	if len(by) > 0 {
		// ... including the call that takes the very last byte
		fw := &failWriter{budget: len(by), eager: true}
		if _, err := b.WriteTo(fw); err == nil {
			fail("WriteTo to a writer that accepts all %d bytes but reports a failure in its last call returned a nil error", len(by))
		}
	}
	inst.CountN("C05", "failing-writer-calls", 3*len(offsets)+1)
	inst.Count("C05", "entry:"+entryNames[entry])
	inst.Count("C05", "receiver:"+recvName[:5])
	ks, _ := live.Kinds(b)
	hasRun := false
	for _, c := range ks {
		if c == 'r' {
			hasRun = true
		}
	}
	inst.Count("C05", fmt.Sprintf("chunks>=4:%v hasrun:%v", len(ks) >= 4, hasRun))
	runtime.KeepAlive(lv)
	inst.Case("C05", len(ks) >= 1 && (recvClass != 0 || (entry == 0 && chunking[0] < 1<<20)), desc+" | "+edesc)
}

// layoutOf returns section boundaries of a library-written stream (via the independent decoder).
func layoutOf(by []byte) ([]spec.Chunk, []int) {
	ch, _, err := spec.DecodePortable(by, false)
	if err != nil {
		return nil, []int{0, len(by) - 1}
	}
	_, l := spec.EncodePortable(ch, spec.EncOpts{})
	offs := []int{0, 4, 8, l.DescOff, l.Total - 1}
	if l.OffsetsOff >= 0 {
		offs = append(offs, l.OffsetsOff)
	}
	for i, o := range l.PayloadOff {
		if i < 64 {
			offs = append(offs, o, o+l.PayloadLen[i]-1)
		}
	}
	return ch, offs
}

func TestC05(t *testing.T) { rapid.Check(t, propC05) }

// TestRegressC05ReceiverSweep enumerates a small scope exhaustively: receivers that previously held R
// one-value chunks (their three parallel tables grown step by step, so that the capacities of the
// tables drift apart) x streams of S chunks for every S up to 2R+8 x five entry points. The tables
// of a reused receiver are re-sliced, not re-made: every (R,S) combination must decode to the stream's set.
func TestRegressC05ReceiverSweep(t *testing.T) {
	streams := map[int][]byte{}
	sets := map[int]*roaring.Bitmap{}
	streamOf := func(s int) ([]byte, *roaring.Bitmap) {
		if by, ok := streams[s]; ok {
			return by, sets[s]
		}
		b := roaring.New()
		for k := 0; k < s; k++ {
			b.Add(uint32(k)<<16 | uint32(k%7))
		}
		if s%2 == 1 {
			b.AddRange(uint64(s)<<16, uint64(s)<<16+300) // run cookie for odd sizes
			b.RunOptimize()
		}
		by, err := b.ToBytes()
		if err != nil {
			t.Fatalf("ToBytes: %v", err)
		}
		streams[s], sets[s] = by, b
		return by, b
	}
	decodes := 0
	for _, r := range []int{1, 2, 3, 4, 5, 7, 8, 9, 15, 16, 17, 31, 32, 33, 40, 48, 63, 64, 65, 100, 127, 128, 129, 200, 256, 257} {
		for hist := 0; hist < 4; hist++ {
			for s := 1; s <= 2*r+8; s++ {
				by, want := streamOf(s)
				for entry := 0; entry < 5; entry++ {
					if hist >= 2 && entry != (s+r)%5 {
						continue // the rarer histories: one entry point per combination
					}
					recv := roaring.New()
					switch hist % 2 {
					case 0: // ascending keys: append at the end
						for k := 0; k < r; k++ {
							recv.Add(uint32(k+3)<<16 | 9)
						}
					default: // descending keys: insert at the front
						for k := r; k > 0; k-- {
							recv.Add(uint32(k+3)<<16 | 9)
						}
					}
					if hist >= 2 {
						recv.Clear()
					}
					var err error
					p, st := inst.Try(func() {
						switch entry {
						case 0:
							_, err = recv.ReadFrom(bytes.NewReader(by))
						case 1:
							_, err = recv.FromBuffer(by)
						case 2:
							_, err = recv.FromUnsafeBytes(by)
						case 3:
							err = recv.UnmarshalBinary(by)
						default:
							_, err = recv.FromBase64(base64.StdEncoding.EncodeToString(by))
						}
					})
					decodes++
					what := fmt.Sprintf("%s of a valid %d-chunk stream into a receiver that previously held %d chunks (history %d)", entryNames[entry], len(want.VerifChunks()), r, hist)
					if p != nil {
						t.Fatalf("%s panicked: %v [%s]", what, p, st)
					}
					if err != nil {
						t.Fatalf("%s: %v", what, err)
					}
					if !recv.Equals(want) || recv.GetCardinality() != want.GetCardinality() {
						t.Fatalf("%s: not Equal to the original", what)
					}
					if entry != 1 && entry != 2 {
						recv.Add(5)
						if !recv.Contains(5) || recv.GetCardinality() != want.GetCardinality()+1 {
							t.Fatalf("%s: decoded bitmap misbehaves after Add", what)
						}
					}
				}
			}
		}
	}
	inst.CountN("C05", "receiver-sweep-decodes", decodes)
}
