package pser

import (
	"bytes"
	"fmt"
	"runtime"
	"testing"

	"github.com/RoaringBitmap/roaring/v2"
	"pgregory.net/rapid"

	"verifharness/gen"
	"verifharness/inst"
	"verifharness/live"
	"verifharness/model"
	"verifharness/spec"
)

func propC13(t *rapid.T) {
	lv, desc := live.History(t, "S", true)
	b, m := lv.B, lv.Model
	fail := func(format string, a ...interface{}) {
		t.Fatalf("%s\n  set=%s\n  [%s]", fmt.Sprintf(format, a...), m, desc)
	}
	if lv.Form == live.Frozen {
		runtime.GC()
	}
	origValid := true
	if err := b.Validate(); err != nil {
		// (C09 holds on the unchanged tree: a bitmap made by public operations validates, and so must the view of its image)
		fail("the bitmap to be frozen, made by public operations, fails Validate: %v", err)
	}
	size := int(b.GetFrozenSizeInBytes())
	fr, err := b.Freeze()
	if err != nil {
		fail("Freeze: %v", err)
	}
	if len(fr) != size {
		fail("Freeze produced %d bytes, GetFrozenSizeInBytes=%d", len(fr), size)
	}
	// FreezeTo into exactly n and n+extra (sentinel-filled)
	extra := rapid.SampledFrom([]int{0, 1, 7, 64}).Draw(t, "extra")
	dst := bytes.Repeat([]byte{0xC5}, size+extra)
	n, err := b.FreezeTo(dst)
	if err != nil || n != size {
		fail("FreezeTo(buffer of %d) = (%d,%v), want (%d,nil)", len(dst), n, err, size)
	}
	if !bytes.Equal(dst[:size], fr) {
		fail("FreezeTo bytes differ from Freeze")
	}
	for i := size; i < len(dst); i++ {
		if dst[i] != 0xC5 {
			fail("FreezeTo wrote beyond the %d bytes it reported (offset %d)", size, i)
		}
	}
	var wb bytes.Buffer
	wn, err := b.WriteFrozenTo(&wb)
	if err != nil || wn != size || !bytes.Equal(wb.Bytes(), fr) {
		fail("WriteFrozenTo = (%d,%v) with %d bytes; want %d bytes identical to Freeze (identical=%v)", wn, err, wb.Len(), size, bytes.Equal(wb.Bytes(), fr))
	}
	// too-small destinations: error and nothing written
	for _, small := range []int{0, size - 1, size - 4, size / 2} {
		if small < 0 || small >= size {
			continue
		}
		sb := bytes.Repeat([]byte{0x5A}, small)
		if k, err := b.FreezeTo(sb); err == nil {
			fail("FreezeTo(buffer of %d < %d) returned (%d, nil)", small, size, k)
		}
		for i := range sb {
			if sb[i] != 0x5A {
				fail("FreezeTo(buffer of %d < %d) failed but wrote at offset %d", small, size, i)
			}
		}
	}
	// too-small destinations cut from a larger array (len < size <= cap): still an error, nothing written
	for _, short := range []int{1, 3, 5, size / 2} {
		if short <= 0 || short > size {
			continue
		}
		arena := bytes.Repeat([]byte{0x6B}, size+8)
		if k, err := b.FreezeTo(arena[:size-short]); err == nil {
			fail("FreezeTo(slice of len %d, cap %d) for a %d-byte image returned (%d, nil)", size-short, len(arena), size, k)
		}
		for i := range arena {
			if arena[i] != 0x6B {
				fail("FreezeTo into a too-short slice (len %d of %d needed, larger capacity) wrote at offset %d", size-short, size, i)
			}
		}
	}
	// independent parse of the layout
	ch, err := spec.DecodeFrozen(fr)
	if err != nil {
		fail("frozen bytes violate the CRoaring layout: %v", err)
	}
	if got := spec.SetOf(ch); !got.Equal(m) {
		fail("independent decode of frozen bytes: %s", model.Diff(m, got))
	}
	vc := b.VerifChunks()
	kinds := map[spec.Kind]bool{}
	for i, c := range ch {
		if i >= len(vc) || c.Key != vc[i].Key || uint8(c.Kind) != vc[i].Kind {
			fail("frozen chunk %d (key %d %s) does not match the bitmap's chunk table", i, c.Key, c.Kind)
		}
		kinds[c.Kind] = true
		inst.Count("C13", "chunk:"+c.Kind.String())
	}
	// the view: bytes in a read-only guarded mapping
	g := inst.NewGuard(fr, rapid.Bool().Draw(t, "atEnd"))
	defer g.Free()
	g.ReadOnly()
	restore := inst.FaultsAsPanics()
	defer restore()
	view := roaring.New()
	recvName := "fresh"
	var oldGuard *inst.Guard
	switch rapid.IntRange(0, 3).Draw(t, "receiver") {
	case 1: // a bitmap that holds other values (more chunks than the image, or fewer)
		n := rapid.SampledFrom([]int{1, 2, 5, 40}).Draw(t, "oldchunks")
		for k := 0; k < n; k++ {
			view.AddRange(uint64(k)<<16+3, uint64(k)<<16+9)
		}
		recvName = fmt.Sprintf("previously holding %d chunks", n)
	case 2: // a bitmap that is currently a view of another frozen image
		ob := roaring.BitmapOf(1, 2, 3, 70000, 200000)
		ob.AddRange(300000, 400000)
		ofr, _ := ob.Freeze()
		oldGuard = inst.NewGuard(ofr, false)
		oldGuard.ReadOnly()
		defer oldGuard.Free()
		if err := view.FrozenView(oldGuard.Data); err != nil {
			fail("harness: %v", err)
		}
		recvName = "previously a view of another image"
	}
	inst.Count("C13", "view-receiver:"+recvName[:5])
	must := rapid.Bool().Draw(t, "must")
	if must {
		err = view.MustFrozenView(g.Data)
		if err != nil && !origValid {
			err = view.FrozenView(g.Data) // MustFrozenView reports the (already known) validation error
		}
	} else {
		err = view.FrozenView(g.Data)
	}
	if err != nil {
		fail("FrozenView(must=%v) of Freeze() bytes into a receiver %s: %v", must, recvName, err)
	}
	if !view.Equals(b) || !b.Equals(view) {
		fail("FrozenView (receiver %s) not Equals the original", recvName)
	}
	if origValid {
		if err := view.Validate(); err != nil {
			fail("FrozenView of a valid bitmap fails Validate: %v", err)
		}
	}
	if d := live.Check(view, m); d != "" {
		fail("FrozenView contents: %s", d)
	}
	cl := view.Clone()
	if d := exercise(t, "post", view, m, 5); d != "" {
		fail("FrozenView misbehaves under (copying) writes: %s", d)
	}
	runtime.GC()
	if d := live.Check(cl, m); d != "" {
		fail("clone of the view changed when the view was modified: %s", d)
	}
	if !bytes.Equal(g.Data, fr) {
		fail("operations on the view changed the frozen bytes")
	}
	// re-freezing the view gives the same bytes
	if fr2, err := cl.Freeze(); err != nil || !bytes.Equal(fr2, fr) {
		fail("Freeze(FrozenView(Freeze(b))) differs from Freeze(b) (err=%v)", err)
	}
	// the caller owns what Freeze returned: overwriting it must not influence a later Freeze
	saved := append([]byte(nil), fr...)
	for i := range fr {
		fr[i] = 0xEE
	}
	if fr3, err := b.Freeze(); err != nil || !bytes.Equal(fr3, saved) {
		fail("Freeze after the caller overwrote the result of an earlier Freeze gives other bytes (err=%v)", err)
	}
	copy(fr, saved)
	runtime.KeepAlive(lv)
	inst.Case("C13", len(kinds) >= 2, desc)
	// "supports all read and (copying) write operations": one case in four, the library-written frozen
	// bytes go through the whole zero-copy operation machine (set algebra with related operands in both
	// roles, chunk-emptying range removals, derived bitmaps, detaching) with the structural buffer oracle
	if m.Card() <= 400000 && len(ch) <= 64 && rapid.IntRange(0, 3).Draw(t, "machine") == 0 {
		var bs gen.BitmapSpec
		bs.Chunks = ch
		for range ch {
			bs.Shapes = append(bs.Shapes, "frozen-by-library")
		}
		zcMachine(t, "C13", eFrozenView, append([]byte(nil), fr...), bs)
	}
}

func TestC13(t *testing.T) { rapid.Check(t, propC13) }

// the two extremes named in the property: the empty bitmap and 65536 chunks
func TestRegressC13Extremes(t *testing.T) { extremes(t) }
func TestRegressC05Extremes(t *testing.T) { extremes(t) }
func TestRegressC06Extremes(t *testing.T) { extremes(t) }
func TestRegressC10Extremes(t *testing.T) { extremes(t) }

// extremes: the empty bitmap and 65536 chunks (with run chunks, i.e. the run cookie stores count-1 = 0xFFFF)
func extremes(t *testing.T) {
	for _, nchunks := range []int{0, 65536} {
		b := roaring.New()
		m := model.New()
		for k := 0; k < nchunks; k++ {
			switch k % 3 {
			case 0:
				b.Add(uint32(k)<<16 + uint32(k))
				m.Add(uint64(k)<<16 + uint64(k))
			case 1:
				b.AddRange(uint64(k)<<16+10, uint64(k)<<16+20)
				m.AddRange(uint64(k)<<16+10, uint64(k)<<16+19)
			default:
				b.AddRange(uint64(k)<<16, uint64(k+1)<<16)
				m.AddRange(uint64(k)<<16, uint64(k+1)<<16-1)
			}
		}
		fr, err := b.Freeze()
		if err != nil || uint64(len(fr)) != b.GetFrozenSizeInBytes() {
			t.Fatalf("%d chunks: Freeze err=%v len=%d size=%d", nchunks, err, len(fr), b.GetFrozenSizeInBytes())
		}
		var wb bytes.Buffer
		if n, err := b.WriteFrozenTo(&wb); err != nil || n != len(fr) || !bytes.Equal(wb.Bytes(), fr) {
			t.Fatalf("%d chunks: WriteFrozenTo disagrees", nchunks)
		}
		ch, err := spec.DecodeFrozen(fr)
		if err != nil || !spec.SetOf(ch).Equal(m) {
			t.Fatalf("%d chunks: independent frozen decode: %v", nchunks, err)
		}
		v := roaring.New()
		if err := v.MustFrozenView(fr); err != nil {
			t.Fatalf("%d chunks: MustFrozenView: %v", nchunks, err)
		}
		if !v.Equals(b) {
			t.Fatalf("%d chunks: view differs", nchunks)
		}
		// portable at the same extremes
		by, err := b.ToBytes()
		if err != nil || uint64(len(by)) != b.GetSerializedSizeInBytes() {
			t.Fatalf("%d chunks: ToBytes err=%v", nchunks, err)
		}
		var pw bytes.Buffer
		if n, err := b.WriteTo(&pw); err != nil || int(n) != len(by) || !bytes.Equal(pw.Bytes(), by) {
			t.Fatalf("%d chunks: WriteTo = (%d,%v) delivering %d bytes, ToBytes has %d", nchunks, n, err, pw.Len(), len(by))
		}
		pc, used, err := spec.DecodePortable(by, true)
		if err != nil || used != len(by) || !spec.SetOf(pc).Equal(m) {
			t.Fatalf("%d chunks: independent portable decode: %v", nchunks, err)
		}
		r := roaring.New()
		if n, err := r.ReadFrom(bytes.NewReader(by)); err != nil || int(n) != len(by) || !r.Equals(b) {
			t.Fatalf("%d chunks: portable round trip n=%d err=%v", nchunks, n, err)
		}
	}
}
