package pser

import (
	"bytes"
	"fmt"
	"runtime"
	"strings"
	"testing"
	"unsafe"

	"github.com/RoaringBitmap/roaring/v2"
	"pgregory.net/rapid"

	"verifharness/gen"
	"verifharness/inst"
	"verifharness/live"
	"verifharness/model"
	"verifharness/spec"
)

type zmember struct {
	b  *roaring.Bitmap
	m  *model.Set
	id int
}

// propC08: bytes in a read-only guarded mapping -> zero-copy load -> generated
// history over the loaded bitmap and everything derived from it -> detach ->
// the mapping is scribbled and unmapped -> the history continues.
func propC08(t *rapid.T) {
	bs := gen.Bitmap(t, "S", gen.KindsValid, false)
	if len(bs.Chunks) > 0 && rapid.Bool().Draw(t, "withFullRun") {
		// full / edge-to-edge run chunks are where operations hand containers around unchanged
		i := rapid.IntRange(0, len(bs.Chunks)-1).Draw(t, "fullRunAt")
		lo := uint64(0)
		if rapid.IntRange(0, 2).Draw(t, "notQuiteFull") == 0 {
			lo = uint64(rapid.IntRange(1, 3).Draw(t, "fullRunLo"))
		}
		bs.Chunks[i].Kind = spec.Run
		bs.Chunks[i].Ivs = []model.Iv{{Lo: lo, Hi: 65535}}
		bs.Shapes[i] = "fullrun"
	}
	entry := rapid.SampledFrom([]int{eFromBuffer, eFromUnsafeBytes, eFrozenView}).Draw(t, "entry")
	var raw []byte
	if entry == eFrozenView {
		raw = spec.EncodeFrozen(bs.Chunks)
	} else {
		raw, _ = spec.EncodePortable(bs.Chunks, spec.EncOpts{ForceRunCookie: rapid.Bool().Draw(t, "forceRunCookie")})
	}
	zcMachine(t, "C08", entry, raw, bs)
}

// zcMachine loads raw (a valid portable or frozen serialization of bs) zero-copy from a guarded
// mapping and runs the operation machine over the view and everything derived from it.
func zcMachine(t *rapid.T, prop string, entry int, raw []byte, bs gen.BitmapSpec) {
	pristine := append([]byte(nil), raw...)
	g := inst.NewGuard(raw, rapid.Bool().Draw(t, "atEnd"))
	defer g.Free()
	// 1 case in 4 keeps the mapping writable and allows the goroutine-parallel aggregates: a stray write
	// from a worker goroutine is then caught by the byte comparison / the structural check instead of
	// killing the process (faults are recoverable only on the test goroutine)
	readOnly := rapid.IntRange(0, 3).Draw(t, "readOnly") != 0
	if prop != "C08" {
		readOnly = rapid.Bool().Draw(t, "readOnly2") // the parallel aggregates get a larger share elsewhere
	}
	if readOnly {
		g.ReadOnly()
	}
	restore := inst.FaultsAsPanics()
	defer restore()

	view := roaring.New()
	var err error
	switch entry {
	case eFromBuffer:
		_, err = view.FromBuffer(g.Data)
	case eFromUnsafeBytes:
		_, err = view.FromUnsafeBytes(g.Data)
	default:
		err = view.FrozenView(g.Data)
	}
	if err != nil {
		t.Fatalf("%s rejected a valid stream: %v", c10Entries[entry], err)
	}
	ops := []string{fmt.Sprintf("#0=%s(%s, %d bytes)", c10Entries[entry], bs, len(raw))}
	log := func(f string, a ...interface{}) { ops = append(ops, fmt.Sprintf(f, a...)) }
	hist := func() string { return strings.Join(ops, "; ") }
	fail := func(f string, a ...interface{}) { t.Fatalf("%s\n  history: %s", fmt.Sprintf(f, a...), hist()) }

	ms := []*zmember{{b: view, m: bs.Set(), id: 0}}
	nextID := 1
	add := func(b *roaring.Bitmap, m *model.Set) *zmember {
		z := &zmember{b: b, m: m, id: nextID}
		nextID++
		if len(ms) >= 5 {
			ms = append(ms[:1], append(ms[2:], z)...) // keep the view (slot 0)
		} else {
			ms = append(ms, z)
		}
		return z
	}
	pick := func(t *rapid.T, label string) *zmember {
		if rapid.IntRange(0, 2).Draw(t, label+".view") == 0 {
			return ms[0]
		}
		return ms[rapid.IntRange(0, len(ms)-1).Draw(t, label)]
	}
	detached := false
	stepsAfterDetach := 0
	mutatedAliased := false
	touched := map[uint16]bool{} // chunk keys of the view that were modified since load

	check := func() {
		for _, z := range ms {
			if d := live.Check(z.b, z.m); d != "" {
				fail("bitmap #%d (detached=%v) no longer equals its model: %s", z.id, detached, d)
			}
		}
		if !detached && !bytes.Equal(g.Data, pristine) {
			fail("the caller's buffer was modified")
		}
		if !detached && len(g.Data) > 0 {
			// structural (hook): a container whose backing array lies inside the caller's
			// buffer must be flagged copy-on-write in every bitmap that holds it,
			// otherwise the next in-place change of that chunk writes into the buffer
			lo := uintptr(unsafe.Pointer(unsafe.SliceData(g.Data)))
			hi := lo + uintptr(len(g.Data))
			for _, z := range ms {
				for _, c := range z.b.VerifChunks() {
					if c.Data >= lo && c.Data < hi && !c.Shared {
						fail("bitmap #%d holds chunk key %d (%d values) whose backing array lies inside the caller's buffer WITHOUT the copy-on-write flag: the next in-place change of that chunk writes into the buffer", z.id, c.Key, c.Card)
					}
				}
			}
		}
	}
	check()

	t.Repeat(map[string]func(*rapid.T){
		"mutate": func(t *rapid.T) {
			z := pick(t, "z")
			x := uint64(gen.Value32(t, "x", z.m))
			e := x + uint64(rapid.SampledFrom([]int{1, 2, 64, 3000, 65536, 70000}).Draw(t, "w"))
			if e > model.Max32+1 {
				e = model.Max32 + 1
			}
			if z.id == 0 && !touched[uint16(x>>16)] && !z.m.Window(x&^0xFFFF, x|0xFFFF).IsEmpty() && !detached {
				mutatedAliased = true
			}
			if z.id == 0 {
				for k := x >> 16; k <= (e-1)>>16; k++ {
					touched[uint16(k)] = true
				}
			}
			switch rapid.IntRange(0, 5).Draw(t, "mop") {
			case 0:
				log("#%d.Add(%d)", z.id, x)
				z.b.Add(uint32(x))
				z.m.Add(x)
			case 1:
				log("#%d.Remove(%d)", z.id, x)
				z.b.Remove(uint32(x))
				z.m.Remove(x)
			case 2:
				log("#%d.AddRange(%d,%d)", z.id, x, e)
				z.b.AddRange(x, e)
				z.m.AddRange(x, e-1)
			case 3:
				log("#%d.RemoveRange(%d,%d)", z.id, x, e)
				z.b.RemoveRange(x, e)
				z.m.RemoveRange(x, e-1)
			case 4:
				log("#%d.Flip(%d,%d)", z.id, x, e)
				z.b.Flip(x, e)
				z.m.FlipRange(x, e-1)
			default:
				vals := []uint32{uint32(x), uint32(x) + 1, uint32(x) ^ 0x10000}
				log("#%d.AddMany(%v)", z.id, vals)
				z.b.AddMany(vals)
				z.m.AddValues32(vals)
			}
		},
		"emptyChunk": func(t *rapid.T) {
			// remove a whole chunk (the key table has to shift) or all leading chunks
			z := pick(t, "z")
			keys := z.m.Keys16()
			if len(keys) == 0 {
				t.Skip("empty")
			}
			ki := rapid.IntRange(0, len(keys)-1).Draw(t, "ki")
			lo := uint64(keys[ki]) << 16
			if rapid.Bool().Draw(t, "leading") {
				lo = 0
			}
			hi := uint64(keys[ki])<<16 + 65536
			if z.id == 0 && !detached {
				mutatedAliased = true
			}
			if rapid.Bool().Draw(t, "pointwise") && z.m.Window(lo, hi-1).Card() <= 40 {
				for _, v := range z.m.Window(lo, hi-1).ToSlice() {
					z.b.Remove(uint32(v))
				}
				log("#%d.Remove(every value in [%d,%d))", z.id, lo, hi)
			} else {
				z.b.RemoveRange(lo, hi)
				log("#%d.RemoveRange(%d,%d)", z.id, lo, hi)
			}
			z.m.RemoveRange(lo, hi-1)
		},
		"inplace": func(t *rapid.T) {
			x, y := pick(t, "x"), pick(t, "y")
			op := rapid.IntRange(0, 3).Draw(t, "op")
			log("#%d.%s(#%d)", x.id, opNames4[op], y.id)
			nm := modelOp4(op, x.m, y.m)
			inplaceOp4(op, x.b, y.b)
			x.m = nm
			if x.id == 0 && !detached {
				mutatedAliased = true
			}
		},
		"andNotOwnPrefix": func(t *rapid.T) {
			x := pick(t, "x")
			keys := x.m.Keys16()
			if len(keys) < 2 {
				t.Skip("needs two chunks")
			}
			k := rapid.IntRange(1, len(keys)-1).Draw(t, "k")
			ym := x.m.Window(0, uint64(keys[k])<<16-1)
			if rapid.Bool().Draw(t, "beyond") && keys[len(keys)-1] < 0xFFFF {
				ym.Add(uint64(keys[len(keys)-1]+1)<<16 + 3)
			}
			yl, err := live.Make(gen.FromSet(t, "prefix", ym, gen.KindsValid), live.Read)
			if err != nil {
				t.Fatalf("harness: %v", err)
			}
			log("#%d.AndNot(first %d chunks of itself)", x.id, k)
			x.b.AndNot(yl.B)
			x.m = model.AndNot(x.m, ym)
			if x.id == 0 && !detached {
				mutatedAliased = true
			}
		},
		"static": func(t *rapid.T) {
			x, y := pick(t, "x"), pick(t, "y")
			op := rapid.IntRange(0, 3).Draw(t, "op")
			z := add(staticOp4(op, x.b, y.b), modelOp4(op, x.m, y.m))
			log("#%d=%s(#%d,#%d)", z.id, opNames4[op], x.id, y.id)
		},
		"derive": func(t *rapid.T) {
			x := pick(t, "x")
			switch rapid.IntRange(0, 4).Draw(t, "how") {
			case 0:
				z := add(x.b.Clone(), x.m.Clone())
				log("#%d=Clone(#%d)", z.id, x.id)
			case 1:
				s, e := uint64(gen.Value32(t, "s", x.m)), uint64(0)
				e = s + uint64(rapid.IntRange(0, 70000).Draw(t, "w"))
				if e > model.Max32+1 {
					e = model.Max32 + 1
				}
				m := x.m.Clone()
				if e > s {
					m.FlipRange(s, e-1)
				}
				z := add(roaring.Flip(x.b, s, e), m)
				log("#%d=Flip(#%d,%d,%d)", z.id, x.id, s, e)
			case 2:
				if x.m.Card() > 150000 {
					t.Skip("big")
				}
				d := rapid.SampledFrom([]int64{-65536, -1, 1, 30000, 65536}).Draw(t, "d")
				z := add(roaring.AddOffset64(x.b, d), x.m.Shift(d, model.Max32))
				log("#%d=AddOffset64(#%d,%d)", z.id, x.id, d)
			case 3:
				// sequential many-way unions over 2-4 members in a drawn order (the third and later members
				// are merged by other code than the first two)
				n := rapid.IntRange(2, 4).Draw(t, "n")
				args := []*roaring.Bitmap{x.b}
				um := x.m.Clone()
				names := fmt.Sprintf("#%d", x.id)
				for i := 1; i < n; i++ {
					y := pick(t, "y")
					if rapid.Bool().Draw(t, "front") {
						args = append([]*roaring.Bitmap{y.b}, args...)
						names = fmt.Sprintf("#%d,", y.id) + names
					} else {
						args = append(args, y.b)
						names += fmt.Sprintf(",#%d", y.id)
					}
					um = model.Or(um, y.m)
				}
				if rapid.Bool().Draw(t, "heap") {
					z := add(roaring.HeapOr(args...), um)
					log("#%d=HeapOr(%s)", z.id, names)
				} else {
					z := add(roaring.FastOr(args...), um)
					log("#%d=FastOr(%s)", z.id, names)
				}
			default:
				y := pick(t, "y")
				z := add(roaring.HeapXor(x.b, y.b), model.Xor(x.m, y.m))
				log("#%d=HeapXor(#%d,#%d)", z.id, x.id, y.id)
			}
		},
		"AndAny": func(t *rapid.T) {
			x := pick(t, "x")
			n := rapid.IntRange(1, 3).Draw(t, "n")
			args := make([]*roaring.Bitmap, n)
			or := model.New()
			names := ""
			for i := range args {
				z := pick(t, "arg")
				args[i] = z.b
				names += fmt.Sprintf("#%d,", z.id)
				or = model.Or(or, z.m)
			}
			log("#%d.AndAny(%s)", x.id, names)
			x.b.AndAny(args...)
			x.m = model.And(x.m, or)
			if x.id == 0 && !detached {
				mutatedAliased = true
			}
		},
		"reloadIntoUsed": func(t *rapid.T) {
			// the caller's bytes loaded once more, this time into a bitmap that has been used before
			// (its tables are re-sliced, not re-made)
			if detached {
				t.Skip("buffer gone")
			}
			r := roaring.New()
			n := len(bs.Chunks) + rapid.IntRange(0, 3).Draw(t, "extra")
			for k := 0; k < n; k++ {
				r.Add(uint32(k)<<16 | 5)
			}
			how := rapid.IntRange(0, 2).Draw(t, "how")
			switch how {
			case 1:
				r.Clear()
			case 2:
				r.SetCopyOnWrite(true)
			}
			var err error
			switch entry {
			case eFromBuffer:
				_, err = r.FromBuffer(g.Data)
			case eFromUnsafeBytes:
				_, err = r.FromUnsafeBytes(g.Data)
			default:
				err = r.FrozenView(g.Data)
			}
			if err != nil {
				fail("%s of the caller's (valid, unchanged) bytes into a previously used bitmap: %v", c10Entries[entry], err)
			}
			z := add(r, bs.Set())
			log("#%d=%s(the same bytes) into a bitmap that held %d chunks (prep %d)", z.id, c10Entries[entry], n, how)
		},
		"parallel": func(t *rapid.T) {
			if readOnly || detached {
				t.Skip("parallel aggregates only over a writable, still mapped buffer")
			}
			n := rapid.IntRange(2, 4).Draw(t, "n")
			args := make([]*roaring.Bitmap, n)
			or, and := model.New(), model.New()
			names := ""
			for i := range args {
				z := pick(t, "arg")
				args[i] = z.b
				names += fmt.Sprintf("#%d,", z.id)
				or = model.Or(or, z.m)
				if i == 0 {
					and = z.m.Clone()
				} else {
					and = model.And(and, z.m)
				}
			}
			w := rapid.SampledFrom([]int{0, 1, 2, 3}).Draw(t, "workers")
			switch rapid.IntRange(0, 2).Draw(t, "fn") {
			case 0:
				z := add(roaring.ParOr(w, args...), or)
				log("#%d=ParOr[%d](%s)", z.id, w, names)
			case 1:
				z := add(roaring.ParHeapOr(w, args...), or)
				log("#%d=ParHeapOr[%d](%s)", z.id, w, names)
			default:
				z := add(roaring.ParAnd(w, args...), and)
				log("#%d=ParAnd[%d](%s)", z.id, w, names)
			}
		},
		"ordinary": func(t *rapid.T) {
			// an ordinary bitmap on the view's keys, to be used as operand
			os, rel := gen.Related(t, "o", bs, gen.KindsValid)
			if len(bs.Chunks) > 0 && rapid.IntRange(0, 4).Draw(t, "full") == 3 {
				// completely full chunks (single runs 0..65535) on some of the view's keys
				fm := model.New()
				for ci, c := range bs.Chunks {
					if ci < 3 && (ci == 0 || rapid.Bool().Draw(t, "fullAlso")) {
						fm.AddRange(uint64(c.Key)<<16, uint64(c.Key)<<16+65535)
					}
				}
				ol, err := live.Make(gen.FromSet(t, "full", fm, gen.KindsAnyLegal), live.Built)
				if err != nil {
					t.Fatalf("harness: %v", err)
				}
				z := add(ol.B, ol.Model)
				log("#%d=ordinary(full chunks on the view's keys)", z.id)
				return
			}
			if rapid.IntRange(0, 3).Draw(t, "dense") == 0 {
				// a privately owned bitmap container on every key of the view
				dm := model.New()
				for ci, c := range bs.Chunks {
					if ci >= 2 {
						break
					}
					var vs []uint64
					off := uint64(rapid.IntRange(0, 1).Draw(t, "parity"))
					for v := off; v < 65536; v += 2 {
						vs = append(vs, uint64(c.Key)<<16+v)
					}
					dm = model.Or(dm, model.FromValues(vs))
				}
				os, rel = gen.FromSet(t, "dense", dm, gen.KindsValid), "dense-same-keys"
			}
			ol, err := live.Make(os, live.Read)
			if err != nil {
				t.Fatalf("harness: %v", err)
			}
			z := add(ol.B, ol.Model)
			log("#%d=ordinary(%s)", z.id, rel)
		},
		"RunOptimize": func(t *rapid.T) {
			z := pick(t, "z")
			log("#%d.RunOptimize()", z.id)
			z.b.RunOptimize()
		},
		"Clear": func(t *rapid.T) {
			if rapid.IntRange(0, 3).Draw(t, "really") != 0 {
				t.Skip("rarely")
			}
			z := pick(t, "z")
			log("#%d.Clear()", z.id)
			z.b.Clear()
			z.m.Clear()
		},
		"reuseAsReceiver": func(t *rapid.T) {
			// the loaded bitmap becomes the receiver of another (owned) stream
			z := pick(t, "z")
			os := gen.Bitmap(t, "other", gen.KindsValid, false)
			enc, _ := spec.EncodePortable(os.Chunks, spec.EncOpts{})
			var err error
			if rapid.Bool().Draw(t, "unmarshal") {
				err = z.b.UnmarshalBinary(enc)
				log("#%d.UnmarshalBinary(%s)", z.id, os)
			} else {
				_, err = z.b.ReadFrom(bytes.NewReader(enc))
				log("#%d.ReadFrom(%s)", z.id, os)
			}
			if err != nil {
				fail("reading a valid stream into #%d: %v", z.id, err)
			}
			z.m = os.Set()
			if z.id == 0 && !detached {
				mutatedAliased = true
			}
		},
		"detach": func(t *rapid.T) {
			if detached {
				t.Skip("already detached")
			}
			for _, z := range ms {
				z.b.CloneCopyOnWriteContainers()
			}
			// the buffer is now overwritten and given back
			if readOnly {
				g.Writable()
			}
			for i := range g.Data {
				g.Data[i] = 0xA5 ^ byte(i)
			}
			g.Free()
			detached = true
			log("detach: CloneCopyOnWriteContainers() on all %d bitmaps; buffer scribbled and unmapped", len(ms))
			runtime.GC()
		},
		"": func(t *rapid.T) {
			if detached {
				stepsAfterDetach++
			}
			check()
		},
	})
	check()
	if prop != "C08" {
		// run as a part of another property's case: that property does its own accounting
		inst.Count(prop, "zero-copy-machine-runs")
		if mutatedAliased {
			inst.Count(prop, "zero-copy-machine:histories-mutating-aliased-chunk")
		}
		return
	}
	inst.Count("C08", "entry:"+c10Entries[entry])
	if detached {
		inst.Count("C08", "histories-with-detach")
	}
	if mutatedAliased {
		inst.Count("C08", "histories-mutating-aliased-chunk")
	}
	inst.Case("C08", mutatedAliased || stepsAfterDetach >= 3, hist())
}

func TestC08(t *testing.T) { rapid.Check(t, propC08) }
