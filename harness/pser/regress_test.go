package pser

import (
	"bytes"
	"encoding/hex"
	"runtime"
	"testing"

	"github.com/RoaringBitmap/roaring/v2"

	"verifharness/model"
	"verifharness/spec"
)

func TestRegressC13FrozenViewGC(t *testing.T) {
	src := roaring.New()
	for k := uint32(0); k < 50; k++ {
		src.Add(k<<16 + 5)
	}
	buf, _ := src.Freeze()
	v := roaring.New()
	if err := v.FrozenView(buf); err != nil {
		t.Fatal(err)
	}
	other := roaring.New()
	for k := uint32(0); k < 50; k++ {
		other.AddRange(uint64(k<<16+100), uint64(k<<16+6000))
	}
	v.Or(other)
	runtime.GC() // with GODEBUG=clobberfree=1 a container the collector could not see is overwritten
	runtime.GC()
	if !v.Equals(roaring.Or(src, other)) {
		t.Fatalf("FrozenView + in-place Or + GC: contents lost (container table invisible to the collector)")
	}
	runtime.KeepAlive(buf)
}

func TestRegressC08FrozenViewKeys(t *testing.T) {
	src := roaring.BitmapOf(5, 1<<16+7, 2<<16+9)
	buf, _ := src.Freeze()
	orig := append([]byte(nil), buf...)
	v := roaring.New()
	if err := v.FrozenView(buf); err != nil {
		t.Fatal(err)
	}
	v.Remove(5)
	v.Clear()
	v.Add(9 << 16)
	if !bytes.Equal(buf, orig) {
		t.Fatalf("operations on a FrozenView wrote into the caller's buffer")
	}
}

func TestRegressC10Untrusted(t *testing.T) {
	enc, _ := spec.EncodePortable([]spec.Chunk{{Key: 0, Kind: spec.Array, Ivs: []model.Iv{{Lo: 1, Hi: 3}}}}, spec.EncOpts{})
	b := roaring.New()
	n, err := b.MustReadFrom(bytes.NewReader(enc))
	if err != nil || int(n) != len(enc) {
		t.Fatalf("MustReadFrom of a valid stream = (%d,%v), want (%d,nil)", n, err, len(enc))
	}
	if _, err := roaring.New().MustReadFrom(bytes.NewReader(enc[:len(enc)-1])); err == nil {
		t.Fatalf("MustReadFrom of a truncated stream returned a nil error")
	}
	wrap, _ := hex.DecodeString("3b300000010000770d02000000ee0377f68909")
	w := roaring.New()
	if _, err := w.ReadFrom(bytes.NewReader(wrap)); err == nil && w.Validate() == nil {
		t.Fatalf("a run that extends past 65535 decodes and validates")
	}
	ivs := []model.Iv{{Lo: 0, Hi: 4095}}
	fr := spec.EncodeFrozen([]spec.Chunk{{Key: 3, Kind: spec.Bitmap, Ivs: ivs}})
	f := roaring.New()
	if err := f.FrozenView(fr); err == nil && f.Validate() == nil {
		if _, err := f.ToBytes(); err != nil {
			t.Fatalf("a bitmap-typed chunk with exactly 4096 values validates but cannot be serialized: %v", err)
		}
	}
}
