package pser

import (
	"bytes"
	"fmt"
	"os"
	"path/filepath"
	"testing"

	"github.com/RoaringBitmap/roaring/v2"

	"verifharness/inst"
	"verifharness/live"
	"verifharness/model"
	"verifharness/spec"
)

// batteryDet is the deterministic variant of the C10 battery (no rapid draws):
// probes are derived from the bitmap's own element list.
func batteryDet(b *roaring.Bitmap) string {
	card := b.GetCardinality()
	if card > 1<<20 {
		return ""
	}
	arr := b.ToArray()
	if uint64(len(arr)) != card {
		return fmt.Sprintf("ToArray has %d values, GetCardinality=%d", len(arr), card)
	}
	for i := 1; i < len(arr); i++ {
		if arr[i] <= arr[i-1] {
			return fmt.Sprintf("ToArray not strictly increasing at %d: %d after %d", i, arr[i], arr[i-1])
		}
	}
	pos := 0
	for i, c := range b.VerifChunks() {
		if c.Card <= 0 || pos+c.Card > len(arr) {
			return fmt.Sprintf("chunk %d (key %d) claims %d values, %d left", i, c.Key, c.Card, len(arr)-pos)
		}
		for _, v := range arr[pos : pos+c.Card] {
			if uint16(v>>16) != c.Key {
				return fmt.Sprintf("value %d listed for chunk key %d lies outside that chunk", v, c.Key)
			}
		}
		pos += c.Card
	}
	if pos != len(arr) {
		return fmt.Sprintf("chunks account for %d values, ToArray has %d", pos, len(arr))
	}
	m := model.FromValues32(arr)
	if d := live.Check(b, m); d != "" {
		return d
	}
	step := len(arr)/40 + 1
	for i := 0; i < len(arr); i += step {
		for _, x := range []uint32{arr[i], arr[i] + 1, arr[i] - 1, arr[i] | 0xFFFF, arr[i] &^ 0xFFFF} {
			if b.Contains(x) != m.Contains(uint64(x)) {
				return fmt.Sprintf("Contains(%d) disagrees with ToArray", x)
			}
			if b.Rank(x) != m.Rank(uint64(x)) {
				return fmt.Sprintf("Rank(%d)=%d, ToArray says %d", x, b.Rank(x), m.Rank(uint64(x)))
			}
		}
		if g, err := b.Select(uint32(i)); err != nil || g != arr[i] {
			return fmt.Sprintf("Select(%d)=%d,%v want %d", i, g, err, arr[i])
		}
	}
	it := b.Iterator()
	for i := 0; i < len(arr) && i < 100000; i++ {
		if !it.HasNext() || it.Next() != arr[i] {
			return fmt.Sprintf("Iterator disagrees with ToArray at %d", i)
		}
	}
	// algebra with a valid partner: every third element plus the shifted list
	pm := model.New()
	var pv []uint32
	for i, v := range arr {
		if i%3 == 0 {
			pv = append(pv, v)
		}
		if i%5 == 0 {
			pv = append(pv, v+7)
		}
	}
	partner := roaring.BitmapOf(pv...)
	pm.AddValues32(pv)
	for op := 0; op < 4; op++ {
		if d := live.Check(staticOp4(op, b, partner), modelOp4(op, m, pm)); d != "" {
			return fmt.Sprintf("%s with a valid partner: %s", opNames4[op], d)
		}
		c := b.Clone()
		inplaceOp4(op, c, partner)
		if d := live.Check(c, modelOp4(op, m, pm)); d != "" {
			return fmt.Sprintf("in-place %s with a valid partner: %s", opNames4[op], d)
		}
	}
	by, err := b.ToBytes()
	if err != nil {
		return fmt.Sprintf("decoded+validated bitmap cannot be re-serialized: %v", err)
	}
	rb := roaring.New()
	if _, err := rb.ReadFrom(bytes.NewReader(by)); err != nil || !rb.Equals(b) {
		return fmt.Sprintf("re-serialization does not round-trip (err=%v)", err)
	}
	return ""
}

// FuzzDecode32 is the coverage-guided target of C10 (thorough tier): any byte string through any
// 32-bit entry point; no panic / out-of-bounds access; accepted+validated input is a genuine set;
// every proper prefix of an accepted portable stream that the independent decoder also accepts is rejected.
func FuzzDecode32(f *testing.F) {
	// seed corpus: valid streams of every shape from the independent encoder, the repository's files, hostile constants
	shapes := [][]spec.Chunk{
		{},
		{{Key: 0, Kind: spec.Array, Ivs: []model.Iv{{Lo: 1, Hi: 3}, {Lo: 9, Hi: 9}}}},
		{{Key: 1, Kind: spec.Run, Ivs: []model.Iv{{Lo: 0, Hi: 65535}}}},
		{{Key: 0, Kind: spec.Bitmap, Ivs: []model.Iv{{Lo: 0, Hi: 4999}}}, {Key: 65535, Kind: spec.Run, Ivs: []model.Iv{{Lo: 65000, Hi: 65535}}}},
		{{Key: 0, Kind: spec.Array, Ivs: []model.Iv{{Lo: 5, Hi: 5}}}, {Key: 1, Kind: spec.Run, Ivs: []model.Iv{{Lo: 1, Hi: 9}, {Lo: 20, Hi: 30}}}, {Key: 2, Kind: spec.Array, Ivs: []model.Iv{{Lo: 7, Hi: 8}}}, {Key: 9, Kind: spec.Array, Ivs: []model.Iv{{Lo: 0, Hi: 0}}}, {Key: 10, Kind: spec.Run, Ivs: []model.Iv{{Lo: 100, Hi: 200}}}},
	}
	for _, ch := range shapes {
		for _, force := range []bool{false, true} {
			enc, _ := spec.EncodePortable(ch, spec.EncOpts{ForceRunCookie: force})
			for e := uint8(0); e < nEntries; e++ {
				f.Add(enc, e)
			}
		}
		f.Add(spec.EncodeFrozen(ch), uint8(eFrozenView))
	}
	files, _ := filepath.Glob("/repo/testdata/*.bin")
	fr, _ := filepath.Glob("/repo/testfrozendata/*.frozen")
	for _, p := range append(files, fr...) {
		if d, err := os.ReadFile(p); err == nil && len(d) < 1<<16 {
			f.Add(d, uint8(eReadFrom))
			f.Add(d, uint8(eFrozenView))
		}
	}
	for _, h := range [][]byte{{0x3b, 0x30, 0xff, 0xff}, {0x3a, 0x30, 0, 0, 0xff, 0xff, 0xff, 0xff}, {0x3a, 0x30, 0, 0, 0, 0, 1, 0}, {0xc6, 0x35, 0, 0}, {0xc6, 0xb5, 0xff, 0xff}} {
		f.Add(h, uint8(eFromBuffer))
	}
	f.Fuzz(func(t *testing.T, data []byte, entry uint8) {
		if len(data) > 1<<16 {
			return
		}
		e := int(entry) % nEntries
		res, g := decode(e, data, len(data)%2 == 0)
		if g != nil {
			defer g.Free()
		}
		if res.panicV != nil {
			t.Fatalf("%s panicked on %d bytes: %v [%s]", c10Entries[e], len(data), res.panicV, res.stack)
		}
		if res.err != nil {
			return
		}
		var verr error
		if p, st := inst.Try(func() { verr = res.b.Validate() }); p != nil {
			t.Fatalf("Validate panicked after %s: %v [%s]", c10Entries[e], p, st)
		}
		if verr != nil {
			return
		}
		var msg string
		if p, st := inst.Try(func() { msg = batteryDet(res.b) }); p != nil {
			t.Fatalf("panic while using a bitmap that decoded (%s) and validated: %v [%s]", c10Entries[e], p, st)
		}
		if msg != "" {
			t.Fatalf("%s returned no error and Validate()==nil but the bitmap is not a genuine set: %s", c10Entries[e], msg)
		}
		// truncation: when the independent decoder agrees that data[:used] is one valid stream,
		// each proper prefix of it must be rejected by the same entry point
		if e != eFrozenView {
			if _, used, err := spec.DecodePortable(data, false); err == nil && used <= len(data) && used > 0 {
				for _, k := range []int{used - 1, used / 2, 4, 0} {
					if k < 0 || k >= used {
						continue
					}
					r2, g2 := decode(e, data[:k], true)
					if g2 != nil {
						g2.Free()
					}
					if r2.panicV != nil {
						t.Fatalf("%s panicked on a %d-byte prefix: %v", c10Entries[e], k, r2.panicV)
					}
					if r2.err == nil {
						t.Fatalf("%s accepted the %d-byte proper prefix of a valid %d-byte stream", c10Entries[e], k, used)
					}
				}
			}
		}
	})
}
