package pser

import (
	"bytes"
	"fmt"
	"runtime"
	"testing"

	"github.com/RoaringBitmap/roaring/v2"
	"pgregory.net/rapid"

	"verifharness/gen"
	"verifharness/inst"
	"verifharness/live"
	"verifharness/model"
	"verifharness/spec"
)

// write direction: library bytes -> strict independent decoder -> the model
func propC06Write(t *rapid.T) {
	lv, desc := live.History(t, "S", true)
	b, m := lv.B, lv.Model
	if lv.Form == live.Frozen {
		runtime.GC()
	}
	by, err := b.ToBytes()
	if err != nil {
		t.Fatalf("ToBytes: %v [%s]", err, desc)
	}
	ch, used, err := spec.DecodePortable(by, false)
	if err != nil {
		t.Fatalf("library bytes violate the format specification: %v\n  set=%s [%s]", err, m, desc)
	}
	if used != len(by) {
		t.Fatalf("library wrote %d bytes but the specification accounts for %d [%s]", len(by), used, desc)
	}
	if got := spec.SetOf(ch); !got.Equal(m) {
		t.Fatalf("independent decode of library bytes gives another set: %s [%s]", model.Diff(m, got), desc)
	}
	// the chunk kinds on the wire are the ones the bitmap holds (hook), in the same order
	vc := b.VerifChunks()
	if len(vc) != len(ch) {
		t.Fatalf("wire has %d chunks, bitmap has %d [%s]", len(ch), len(vc), desc)
	}
	hasRun := false
	for i, c := range ch {
		if c.Key != vc[i].Key {
			t.Fatalf("chunk %d key on wire %d, in memory %d [%s]", i, c.Key, vc[i].Key, desc)
		}
		if c.Kind == spec.Run {
			hasRun = true
		}
		inst.Count("C06", "write:"+c.Kind.String())
	}
	runtime.KeepAlive(lv)
	inst.Case("C06", hasRun || len(ch) >= 4, "write: "+desc)
}

// splitRuns cuts some runs of run chunks into adjacent pieces (legal, non-maximal granularity).
func splitRuns(t *rapid.T, chunks []spec.Chunk) ([]spec.Chunk, bool) {
	out := make([]spec.Chunk, len(chunks))
	did := false
	for i, c := range chunks {
		out[i] = c
		if c.Kind != spec.Run {
			continue
		}
		var ivs []model.Iv
		for j, iv := range c.Ivs {
			if iv.Hi > iv.Lo && rapid.IntRange(0, 2).Draw(t, fmt.Sprintf("split%d.%d", i, j)) == 0 && j < 50 {
				cut := iv.Lo + uint64(rapid.Uint64Range(0, iv.Hi-iv.Lo-1).Draw(t, "cut"))
				ivs = append(ivs, model.Iv{Lo: iv.Lo, Hi: cut}, model.Iv{Lo: cut + 1, Hi: iv.Hi})
				did = true
			} else {
				ivs = append(ivs, iv)
			}
		}
		out[i].Ivs = ivs
	}
	return out, did
}

// read direction: any spec-conformant stream is read as the set it encodes
func propC06Read(t *rapid.T) {
	bs := gen.Bitmap(t, "S", gen.KindsAnyLegal, true)
	want := bs.Set()
	chunks := bs.Chunks
	split := false
	if rapid.IntRange(0, 3).Draw(t, "splitruns") == 0 {
		chunks, split = splitRuns(t, chunks)
	}
	opts := spec.EncOpts{ForceRunCookie: rapid.Bool().Draw(t, "forceRunCookie")}
	enc, lay := spec.EncodePortable(chunks, opts)
	// sanity of my own encoder against my own strict decoder (harness self-check, not a verdict)
	if dc, used, err := spec.DecodePortable(enc, false); err != nil || used != len(enc) || !spec.SetOf(dc).Equal(want) {
		t.Fatalf("harness: encoder/decoder disagree: %v", err)
	}
	desc := fmt.Sprintf("%s cookie12347=%v offsets=%v splitRuns=%v", bs, lay.HasRunCookie, lay.OffsetsOff >= 0, split)
	entry := rapid.IntRange(0, 3).Draw(t, "entry")
	rb := roaring.New()
	var n int64
	var err error
	switch entry {
	case 0:
		cr := &chunkReader{data: enc, sizes: drawChunking(t, "chunking")}
		if len(enc) >= 4 && rapid.IntRange(0, 3).Draw(t, "cookieHeader") == 2 {
			// the variant for callers that have already consumed the 4-byte cookie (as roaring64 does)
			cr.pos = 4
			n, err = rb.ReadFrom(cr, enc[0], enc[1], enc[2], enc[3])
			if err == nil && int(n) == len(enc)-4 {
				n = int64(len(enc)) // the documentation does not say whether the pre-read cookie is counted
			}
			desc += " (cookie passed separately)"
		} else {
			n, err = rb.ReadFrom(cr)
		}
	case 1:
		n, err = rb.FromBuffer(enc)
	case 2:
		n, err = rb.FromUnsafeBytes(enc)
	default:
		err = rb.UnmarshalBinary(enc)
		n = int64(len(enc))
	}
	if err != nil {
		t.Fatalf("%s rejected a spec-conformant stream: %v\n  set=%s [%s]", entryNames[entry], err, want, desc)
	}
	if int(n) != len(enc) {
		t.Fatalf("%s consumed %d of %d bytes of a spec-conformant stream [%s]", entryNames[entry], n, len(enc), desc)
	}
	if d := live.Check(rb, want); d != "" {
		t.Fatalf("%s read a spec-conformant stream as another set: %s\n  set=%s [%s]", entryNames[entry], d, want, desc)
	}
	if entry == 0 || entry == 3 {
		// the copying entry points do not keep the caller's bytes
		saved := append([]byte(nil), enc...)
		for i := range enc {
			enc[i] = 0x3C ^ byte(i)
		}
		if d := live.Check(rb, want); d != "" {
			t.Fatalf("%s: the decoded bitmap changed when the input bytes were overwritten afterwards: %s [%s]", entryNames[entry], d, desc)
		}
		copy(enc, saved)
	}
	for i := 0; i < 8; i++ {
		x := gen.Value32(t, "x", want)
		if g, w := rb.Contains(x), want.Contains(uint64(x)); g != w {
			t.Fatalf("%s: Contains(%d)=%v want %v [%s]", entryNames[entry], x, g, w, desc)
		}
	}
	if !split {
		// maximal runs: the bitmap must behave as an ordinary set
		for i := 0; i < 4; i++ {
			x := gen.Value32(t, "r", want)
			if g, w := rb.Rank(x), want.Rank(uint64(x)); g != w {
				t.Fatalf("%s: Rank(%d)=%d want %d [%s]", entryNames[entry], x, g, w, desc)
			}
		}
		ref, _ := live.Make(gen.FromSet(t, "ref", want, gen.KindsValid), live.Built)
		if !rb.Equals(ref.B) || !ref.B.Equals(rb) {
			t.Fatalf("%s: bitmap read from a spec-conformant stream is not Equals a built bitmap of the same set [%s]", entryNames[entry], desc)
		}
		// re-serializing gives a stream my decoder reads back to the same set
		by, err := rb.ToBytes()
		if err != nil {
			t.Fatalf("ToBytes after reading a conformant stream: %v [%s]", err, desc)
		}
		dc, _, err := spec.DecodePortable(by, false)
		if err != nil || !spec.SetOf(dc).Equal(want) {
			t.Fatalf("re-serialization of a conformant stream is wrong: %v [%s]", err, desc)
		}
	} else {
		inst.Count("C06", "read:split-runs(restricted assertions)")
	}
	if !bytes.Equal(enc, func() []byte { e, _ := spec.EncodePortable(chunks, opts); return e }()) {
		t.Fatalf("reading changed the stream bytes [%s]", desc)
	}
	runtime.KeepAlive(enc)
	hasRun := false
	for _, c := range chunks {
		if c.Kind == spec.Run {
			hasRun = true
		}
		inst.Count("C06", "read:"+c.Kind.String())
	}
	inst.Count("C06", fmt.Sprintf("read:cookie12347=%v,runs=%v,offsets=%v", lay.HasRunCookie, hasRun, lay.OffsetsOff >= 0))
	inst.Case("C06", hasRun || len(chunks) >= 4, "read: "+desc+" via "+entryNames[entry])
}

func TestC06Write(t *testing.T) { rapid.Check(t, propC06Write) }
func TestC06Read(t *testing.T)  { rapid.Check(t, propC06Read) }

// golden files written by the Java/C implementations must be read as the published set
func TestRegressC06Golden(t *testing.T) {
	var vs []uint64
	for k := uint64(0); k < 100; k++ {
		vs = append(vs, k*1000)
	}
	for k := uint64(100000); k < 200000; k++ {
		vs = append(vs, 3*k)
	}
	want := model.FromValues(vs)
	want.AddRange(700000, 799999)
	for _, f := range []string{"bitmapwithruns.bin", "bitmapwithoutruns.bin"} {
		by := mustRead(t, "/repo/testdata/"+f)
		rb := roaring.New()
		if _, err := rb.ReadFrom(bytes.NewReader(by)); err != nil {
			t.Fatal(err)
		}
		if d := live.Check(rb, want); d != "" {
			t.Fatalf("%s: %s", f, d)
		}
		out, _ := rb.ToBytes()
		if !bytes.Equal(out, by) {
			t.Fatalf("%s: library re-serialization differs from the Java-written file", f)
		}
	}
}
