package pser

import (
	"errors"
	"fmt"
	"io"
	"os"
	"testing"

	"github.com/RoaringBitmap/roaring/v2"
	"pgregory.net/rapid"

	"verifharness/gen"
	"verifharness/inst"
	"verifharness/live"
	"verifharness/model"
)

func TestMain(m *testing.M) { inst.Main(m) }

func thorough() bool { return os.Getenv("VERIF_TIER") == "thorough" }

// chunkReader delivers the stream in generated piece sizes and counts what was consumed.
type chunkReader struct {
	data  []byte
	pos   int
	sizes []int
	i     int
	// eofWithData: the final piece is returned together with io.EOF (legal for an io.Reader)
	eofWithData bool
}

func (r *chunkReader) Read(p []byte) (int, error) {
	if r.pos >= len(r.data) {
		return 0, io.EOF
	}
	n := r.sizes[r.i%len(r.sizes)]
	r.i++
	if n > len(p) {
		n = len(p)
	}
	if n > len(r.data)-r.pos {
		n = len(r.data) - r.pos
	}
	copy(p, r.data[r.pos:r.pos+n])
	r.pos += n
	if r.eofWithData && r.pos == len(r.data) {
		return n, io.EOF
	}
	return n, nil
}

func drawChunking(t *rapid.T, label string) []int {
	switch rapid.IntRange(0, 3).Draw(t, label+".class") {
	case 0:
		return []int{1}
	case 1:
		return []int{1 << 20}
	case 2:
		return []int{rapid.IntRange(1, 9).Draw(t, label+".k")}
	}
	n := rapid.IntRange(1, 6).Draw(t, label+".n")
	s := make([]int, n)
	for i := range s {
		s[i] = rapid.SampledFrom([]int{1, 2, 3, 4, 5, 7, 8, 9, 100, 8191, 8192, 8193}).Draw(t, label+".size")
	}
	return s
}

var errInjected = errors.New("injected writer failure")

// failWriter accepts exactly `budget` bytes. partial: the failing call reports
// the bytes that still fitted together with the error; otherwise it accepts
// nothing from the failing call.
type failWriter struct {
	budget  int
	partial bool
	wrote   int
	// eager: the error is reported by the call that uses up the budget, together with a full
	// write (n == len(p), err != nil is legal for an io.Writer), not by the following call
	eager bool
}

func (w *failWriter) Write(p []byte) (int, error) {
	if len(p) <= w.budget {
		w.budget -= len(p)
		w.wrote += len(p)
		if w.eager && w.budget == 0 && len(p) > 0 {
			return len(p), errInjected
		}
		return len(p), nil
	}
	n := 0
	if w.partial {
		n = w.budget
	}
	w.wrote += n
	w.budget = 0
	return n, errInjected
}

// exercise applies a short generated history to b and the model and compares.
func exercise(t *rapid.T, label string, b *roaring.Bitmap, m *model.Set, steps int) string {
	m = m.Clone()
	ops := ""
	for i := 0; i < steps; i++ {
		x := uint64(gen.Value32(t, label+".x", m))
		e := x + uint64(rapid.SampledFrom([]int{1, 3, 64, 5000, 65536, 70000}).Draw(t, label+".w"))
		if e > model.Max32+1 {
			e = model.Max32 + 1
		}
		switch rapid.IntRange(0, 6).Draw(t, label+".op") {
		case 0:
			b.Add(uint32(x))
			m.Add(x)
			ops += fmt.Sprintf("Add(%d);", x)
		case 1:
			b.Remove(uint32(x))
			m.Remove(x)
			ops += fmt.Sprintf("Remove(%d);", x)
		case 2:
			b.AddRange(x, e)
			m.AddRange(x, e-1)
			ops += fmt.Sprintf("AddRange(%d,%d);", x, e)
		case 3:
			b.RemoveRange(x, e)
			m.RemoveRange(x, e-1)
			ops += fmt.Sprintf("RemoveRange(%d,%d);", x, e)
		case 4:
			b.Flip(x, e)
			m.FlipRange(x, e-1)
			ops += fmt.Sprintf("Flip(%d,%d);", x, e)
		case 5:
			o := roaring.New()
			o.AddRange(x, e)
			b.And(o)
			m = m.Window(x, e-1)
			ops += fmt.Sprintf("And([%d,%d));", x, e)
		default:
			b.RunOptimize()
			ops += "RunOptimize;"
		}
		if d := live.Check(b, m); d != "" {
			return fmt.Sprintf("after %s: %s", ops, d)
		}
	}
	return ""
}

func mustRead(t *testing.T, p string) []byte {
	b, err := os.ReadFile(p)
	if err != nil {
		t.Fatal(err)
	}
	return b
}

func readFile(p string) ([]byte, error) { return os.ReadFile(p) }
