package pconc

import (
	"bytes"
	"errors"
	"fmt"
	"io"
	"math/big"
	"os"
	"os/exec"
	"runtime"
	"strings"
	"sync"
	"testing"
	"time"

	"github.com/RoaringBitmap/roaring/v2"
	bsi32 "github.com/RoaringBitmap/roaring/v2/BitSliceIndexing"
	"github.com/RoaringBitmap/roaring/v2/roaring64"
	"pgregory.net/rapid"

	"verifharness/gen"
	"verifharness/inst"
	"verifharness/model"
	"verifharness/spec"
)

func TestMain(m *testing.M) { inst.Main(m) }

// guarded runs f with a watchdog. Time alone is never the verdict: after 90 s the stacks of all goroutines that
// are inside the library are sampled every 30 s. A call whose library goroutines are ALL parked (channel
// operations, select, WaitGroup / mutex / condition waits) with identical stacks in two consecutive samples is a
// deadlock. As long as one of them is running or runnable the call is merely slow (a loaded machine, the race
// detector, GOMAXPROCS=1) and the watchdog keeps waiting; only after 10 minutes of that is it reported as a hang.
func guarded(t *rapid.T, what string, f func()) {
	done := make(chan interface{}, 1)
	go func() {
		defer func() { done <- recover() }()
		f()
	}()
	libStacks := func() (all []string, parked bool) {
		buf := make([]byte, 4<<20)
		n := runtime.Stack(buf, true)
		parked = true
		for _, g := range strings.Split(string(buf[:n]), "\n\n") {
			if !strings.Contains(g, "RoaringBitmap/roaring") {
				continue
			}
			lines := strings.Split(g, "\n")
			state := ""
			if i, j := strings.Index(lines[0], "["), strings.Index(lines[0], "]"); i >= 0 && j > i {
				state = lines[0][i+1 : j]
			}
			if k := strings.Index(state, ","); k >= 0 {
				state = state[:k] // "chan receive, 2 minutes"
			}
			switch state {
			case "chan receive", "chan send", "select", "semacquire", "sync.WaitGroup.Wait", "sync.Mutex.Lock", "sync.RWMutex.RLock", "sync.RWMutex.Lock", "sync.Cond.Wait", "chan receive (nil chan)", "chan send (nil chan)", "select (no cases)":
			default:
				parked = false
			}
			if len(lines) > 10 {
				lines = lines[:10]
			}
			// drop the goroutine header (it carries the waiting time, which changes between samples)
			all = append(all, state+" | "+strings.Join(lines[1:], " | "))
		}
		return all, parked && len(all) > 0
	}
	wait := 90 * time.Second
	elapsed := time.Duration(0)
	prev := ""
	for {
		select {
		case p := <-done:
			if p != nil {
				t.Fatalf("%s panicked: %v", what, p)
			}
			return
		case <-time.After(wait):
		}
		elapsed += wait
		wait = 30 * time.Second
		stacks, parked := libStacks()
		sig := strings.Join(stacks, "\n")
		if parked && sig == prev {
			t.Fatalf("%s did not return after %v and every goroutine inside the library is parked, unchanged between two samples: deadlock. Library goroutines:\n%s", what, elapsed, sig)
		}
		if parked {
			prev = sig
		} else {
			prev = ""
		}
		if elapsed >= 10*time.Minute {
			t.Fatalf("%s still running after %v (the same call normally takes milliseconds): hang. Library goroutines:\n%s", what, elapsed, sig)
		}
	}
}

// settle waits for the goroutine count to return to the baseline.
func settle(t *rapid.T, base int, what string) {
	for i := 0; i < 400; i++ {
		if runtime.NumGoroutine() <= base {
			return
		}
		time.Sleep(5 * time.Millisecond)
	}
	buf := make([]byte, 1<<18)
	n := runtime.Stack(buf, true)
	t.Fatalf("%s left goroutines behind: %d running, %d before the call\n%s", what, runtime.NumGoroutine(), base, buf[:n])
}

var keepBuffers [][]byte // buffers behind zero-copy inputs stay alive for the process lifetime

// readBitmap materializes a spec: owned (ReadFrom), zero-copy over a buffer (every chunk flagged
// shared), or as one side of a copy-on-write clone pair (every chunk flagged shared).
func readBitmap(bs gen.BitmapSpec, how int) *roaring.Bitmap {
	enc, _ := spec.EncodePortable(bs.Chunks, spec.EncOpts{})
	b := roaring.New()
	switch how {
	case 1:
		keepBuffers = append(keepBuffers, enc)
		if len(keepBuffers) > 4096 {
			keepBuffers = keepBuffers[2048:]
		}
		if _, err := b.FromBuffer(enc); err != nil {
			panic(err)
		}
	default:
		if _, err := b.ReadFrom(bytes.NewReader(enc)); err != nil {
			panic(err)
		}
		if how == 2 {
			b.SetCopyOnWrite(true)
			_ = b.Clone() // flags every chunk of b as shared
		}
	}
	return b
}

// parList draws a list of bitmaps over a common key window (cheap contents; built by decoding, not by Add loops).
// anyCOW reports whether a member was made with SetCopyOnWrite(true).
var anyCOW bool

func parList(t *rapid.T) ([]*roaring.Bitmap, []*model.Set, string) {
	anyCOW = false
	n := rapid.IntRange(0, 6).Draw(t, "n")
	span := rapid.SampledFrom([]int{1, 2, 5, 17, 33, 70, 132, 140, 230, 260}).Draw(t, "span") // 132 = 4*33 and 230 > 3*64+32: more work items than channel capacity + workers
	k0 := rapid.SampledFrom([]int{0, 30000, 65536 - span}).Draw(t, "k0")
	var bs []*roaring.Bitmap
	var ms []*model.Set
	desc := fmt.Sprintf("keys %d..%d:", k0, k0+span-1)
	for i := 0; i < n; i++ {
		label := fmt.Sprintf("m%d", i)
		switch rapid.IntRange(0, 7).Draw(t, label+".class") {
		case 0:
			bs, ms = append(bs, roaring.New()), append(ms, model.New())
			desc += " empty"
			continue
		case 1:
			if len(bs) > 0 {
				j := rapid.IntRange(0, len(bs)-1).Draw(t, label+".dup")
				bs, ms = append(bs, bs[j]), append(ms, ms[j])
				desc += " dup"
				continue
			}
		case 2:
			// completely full chunks (one run 0..65535 each) on the first keys of the window
			fm := model.New()
			var fsp gen.BitmapSpec
			for k := 0; k < span && k < 3; k++ {
				if k == 0 || rapid.Bool().Draw(t, label+".fullAlso") {
					fm.AddRange(uint64(k0+k)<<16, uint64(k0+k)<<16+65535)
					fsp.Chunks = append(fsp.Chunks, spec.Chunk{Key: uint16(k0 + k), Kind: spec.Run, Ivs: []model.Iv{{Lo: 0, Hi: 65535}}})
					fsp.Shapes = append(fsp.Shapes, "full")
				}
			}
			how := rapid.IntRange(0, 2).Draw(t, label+".storage")
			if how == 2 {
				anyCOW = true
			}
			// at the front, where the accumulator of an intersection starts out full
			bs, ms = append([]*roaring.Bitmap{readBitmap(fsp, how)}, bs...), append([]*model.Set{fm}, ms...)
			desc += fmt.Sprintf(" [%d full chunks, placed first]", len(fsp.Chunks))
			continue
		}
		density := rapid.SampledFrom([]int{1, 1, 2, 4}).Draw(t, label+".density")
		var keys []uint16
		for k := 0; k < span; k++ {
			if rapid.IntRange(0, density-1).Draw(t, label+".has") == 0 {
				keys = append(keys, uint16(k0+k))
			}
		}
		if len(keys) == 0 {
			keys = []uint16{uint16(k0)}
		}
		var sp gen.BitmapSpec
		if len(keys) > 12 {
			sp = gen.BitmapWithKeys(t, label, keys, gen.KindsValid) // cheap shapes for many keys
		} else {
			sp = gen.BitmapWithKeys(t, label, keys, gen.KindsValid)
		}
		how := rapid.IntRange(0, 2).Draw(t, label+".storage")
		if how == 2 {
			anyCOW = true
		}
		bs, ms = append(bs, readBitmap(sp, how)), append(ms, sp.Set())
		desc += fmt.Sprintf(" [%d chunks]", len(sp.Chunks))
	}
	return bs, ms, desc
}

func fold(kind string, ms []*model.Set) *model.Set {
	acc := model.New()
	for i, m := range ms {
		switch {
		case kind == "or":
			acc = model.Or(acc, m)
		case i == 0:
			acc = m.Clone()
		default:
			acc = model.And(acc, m)
		}
	}
	return acc
}

func setOf(b *roaring.Bitmap) *model.Set {
	var ivs []model.Iv
	by, err := b.ToBytes()
	if err != nil {
		return nil
	}
	ch, _, err := spec.DecodePortable(by, false)
	if err != nil {
		return nil
	}
	for _, iv := range spec.SetOf(ch).Intervals() {
		ivs = append(ivs, iv)
	}
	return model.FromIntervals(ivs)
}

func propC12Aggregates(t *rapid.T) {
	old := runtime.GOMAXPROCS(rapid.SampledFrom([]int{1, 2, 4, 16}).Draw(t, "GOMAXPROCS"))
	defer runtime.GOMAXPROCS(old)
	bs, ms, desc := parList(t)
	// schedule perturbation through the verif hook: a generated table says what happens at each
	// scheduling point of the library's parallel code (nothing / yield / several yields / a short sleep)
	table := make([]int, 24)
	tdesc := ""
	if rapid.Bool().Draw(t, "perturb") {
		for i := range table {
			table[i] = rapid.IntRange(0, 7).Draw(t, "site")
		}
		tdesc = fmt.Sprintf(" yieldtable=%v", table)
	}
	hook := func(site int) {
		switch table[site%len(table)] {
		case 4:
			runtime.Gosched()
		case 5:
			for i := 0; i < 5; i++ {
				runtime.Gosched()
			}
		case 6:
			time.Sleep(20 * time.Microsecond)
		case 7:
			time.Sleep(300 * time.Microsecond)
		}
	}
	roaring.VerifYieldHook, roaring64.VerifYieldHook = hook, hook
	defer func() { roaring.VerifYieldHook, roaring64.VerifYieldHook = nil, nil }()
	fn := rapid.SampledFrom([]string{"ParOr", "ParHeapOr", "ParAnd", "ParOr64"}).Draw(t, "fn")
	workers := rapid.SampledFrom([]int{0, 1, 2, 3, 8, 16, 33, 64}).Draw(t, "workers")
	reps := rapid.IntRange(1, 3).Draw(t, "reps")
	base := runtime.NumGoroutine()
	what := fmt.Sprintf("%s(%d) over %d bitmaps, %s%s", fn, workers, len(bs), desc, tdesc)
	keys := map[uint16]int{}
	for _, m := range ms {
		for _, k := range m.Keys16() {
			keys[k]++
		}
	}
	// the inputs are read-only for the Par* functions: two callers may share them. Run the same call
	// from two goroutines at once over the SAME input bitmaps (a write to an input by any worker is
	// then a data race for the detector), and check afterwards that every input still equals its model.
	// (not with copy-on-write ENABLED inputs: there even Clone() flags the source's chunks, and the
	// documentation says copy-on-write "requires extra care in a threaded context" - sharing such a
	// bitmap between concurrent callers is outside the contract; zero-copy inputs are fine)
	if fn != "ParOr64" && len(bs) > 0 && !anyCOW && rapid.Bool().Draw(t, "sharedInputs") {
		// ... and, half of the time, the very same argument slice (the functions are read-only on it too)
		sameSlice := rapid.Bool().Draw(t, "sameSlice")
		saved := append([]*roaring.Bitmap(nil), bs...)
		checkSlice := func() {
			for i := range saved {
				if bs[i] != saved[i] {
					t.Fatalf("%s: the caller's argument slice was rewritten (entry %d)", what, i)
				}
			}
		}
		guarded(t, what+" (two concurrent callers sharing the inputs)", func() {
			var wg sync.WaitGroup
			for g := 0; g < 2; g++ {
				wg.Add(1)
				go func() {
					defer wg.Done()
					args := bs
					if !sameSlice {
						args = append([]*roaring.Bitmap(nil), bs...)
					}
					switch fn {
					case "ParOr":
						roaring.ParOr(workers, args...)
					case "ParHeapOr":
						roaring.ParHeapOr(workers, args...)
					default:
						roaring.ParAnd(workers, args...)
					}
				}()
			}
			wg.Wait()
		})
		checkSlice()
		for i, b := range bs {
			if g := setOf(b); g == nil {
				t.Fatalf("%s: input #%d was modified by the call: it can no longer be serialized / decoded", what, i)
			} else if !g.Equal(ms[i]) {
				t.Fatalf("%s: input #%d was modified by the call: %s", what, i, model.Diff(ms[i], g))
			}
		}
		settle(t, base, what)
	}
	for r := 0; r < reps; r++ {
		var got *model.Set
		var want *model.Set
		guarded(t, what, func() {
			args := append([]*roaring.Bitmap(nil), bs...)
			switch fn {
			case "ParOr":
				got, want = setOf(roaring.ParOr(workers, args...)), fold("or", ms)
			case "ParHeapOr":
				got, want = setOf(roaring.ParHeapOr(workers, args...)), fold("or", ms)
			case "ParAnd":
				if len(args) == 0 {
					got, want = model.New(), model.New()
					return
				}
				got, want = setOf(roaring.ParAnd(workers, args...)), fold("and", ms)
			case "ParOr64":
				// every 32-bit chunk key of the list becomes a 64-bit bucket (up to 260 buckets, so that a
				// worker's chunk holds several keys); a member's values keep their low 16 bits
				var a64 []*roaring64.Bitmap
				var m64s []*model.Set
				want = model.New()
				for _, m := range ms {
					b := roaring64.New()
					wi := model.New()
					for _, iv := range m.Intervals() {
						for k := iv.Lo >> 16; k <= iv.Hi>>16; k++ {
							lo, hi := iv.Lo, iv.Hi
							if lo < k<<16 {
								lo = k << 16
							}
							if hi > k<<16+65535 {
								hi = k<<16 + 65535
							}
							bucket := k << 32
							b.AddRange(bucket+(lo&0xFFFF), bucket+(hi&0xFFFF)+1)
							wi.AddRange(bucket+(lo&0xFFFF), bucket+(hi&0xFFFF))
						}
					}
					a64 = append(a64, b)
					m64s = append(m64s, wi)
					want = model.Or(want, wi)
				}
				var res *roaring64.Bitmap
				var wg sync.WaitGroup
				for g := 0; g < 2; g++ { // two callers share the inputs
					wg.Add(1)
					go func(g int) {
						defer wg.Done()
						r := roaring64.ParOr(workers, append([]*roaring64.Bitmap(nil), a64...)...)
						if g == 0 {
							res = r
						}
					}(g)
				}
				wg.Wait()
				for i, b := range a64 {
					by, err := b.ToBytes()
					if err != nil {
						panic(err)
					}
					bk, _, err := spec.Decode64(by)
					if err != nil || !spec.Set64Of(bk).Equal(m64s[i]) {
						panic(fmt.Sprintf("roaring64.ParOr modified its input #%d", i))
					}
				}
				by, err := res.ToBytes()
				if err != nil {
					return
				}
				bk, _, err := spec.Decode64(by)
				if err != nil {
					return
				}
				got = spec.Set64Of(bk)
			}
		})
		if got == nil {
			t.Fatalf("%s: result cannot be serialized/decoded", what)
		}
		if !got.Equal(want) {
			t.Fatalf("%s (GOMAXPROCS=%d, repetition %d) != sequential fold: %s", what, runtime.GOMAXPROCS(0), r, model.Diff(want, got))
		}
		settle(t, base, what)
	}
	if fn != "ParOr64" {
		for i, b := range bs {
			if g := setOf(b); g == nil {
				t.Fatalf("%s: input #%d was modified by the call: it can no longer be serialized / decoded", what, i)
			} else if !g.Equal(ms[i]) {
				t.Fatalf("%s: input #%d was modified by the call: %s", what, i, model.Diff(ms[i], g))
			}
		}
	}
	inst.Count("C12", "fn:"+fn)
	inst.Case("C12", len(keys) >= 2 && workers != 1 && len(bs) >= 2, what+fmt.Sprintf(" GOMAXPROCS=%d", runtime.GOMAXPROCS(0)))
}

// yieldReader hands out a few bytes at a time and yields in between, so that
// concurrent decoders interleave while they hold pooled reader adapters.
type yieldReader struct {
	data     []byte
	pos      int
	step     int
	failWith error // returned instead of io.EOF when the data runs out
}

var errSourceBroke = errors.New("source broke down")

func (r *yieldReader) Read(p []byte) (int, error) {
	if r.pos >= len(r.data) {
		if r.failWith != nil {
			return 0, r.failWith
		}
		return 0, io.EOF
	}
	n := r.step
	if n > len(p) {
		n = len(p)
	}
	if n > len(r.data)-r.pos {
		n = len(r.data) - r.pos
	}
	copy(p, r.data[r.pos:r.pos+n])
	r.pos += n
	runtime.Gosched()
	return n, nil
}

func propC12Decode(t *rapid.T) {
	old := runtime.GOMAXPROCS(rapid.SampledFrom([]int{1, 2, 4, 16}).Draw(t, "GOMAXPROCS"))
	defer runtime.GOMAXPROCS(old)
	k := rapid.IntRange(2, 8).Draw(t, "decoders")
	type job struct {
		enc  []byte
		want *model.Set
		via  int
		step int
	}
	jobs := make([]job, k)
	for i := range jobs {
		sp := gen.Bitmap(t, fmt.Sprintf("s%d", i), gen.KindsValid, false)
		enc, _ := spec.EncodePortable(sp.Chunks, spec.EncOpts{})
		jobs[i] = job{enc, sp.Set(), rapid.IntRange(0, 2).Draw(t, "via"), rapid.SampledFrom([]int{1, 2, 3, 7, 64, 4096}).Draw(t, "step")}
	}
	// some failing decodes first: adapters / buffers travel back to the process-wide pools on error paths too
	nfail := rapid.IntRange(0, 4).Draw(t, "failingDecodesFirst")
	for i := 0; i < nfail; i++ {
		enc := jobs[i%k].enc
		cut := rapid.IntRange(0, len(enc)-1).Draw(t, "cut")
		roaring.New().ReadFrom(&yieldReader{data: enc[:cut], step: 3})
		// ... and a source that breaks down with an error of its own (not EOF) part of the way
		roaring.New().ReadFrom(&yieldReader{data: enc[:cut], step: 3, failWith: errSourceBroke})
		r64b := roaring64.New()
		r64b.ReadFrom(&yieldReader{data: enc[:cut], step: 2, failWith: errSourceBroke})
		roaring.New().FromBuffer(enc[:cut])
		r64 := roaring64.New()
		r64.ReadFrom(&yieldReader{data: enc[:cut], step: 3})
	}
	base := runtime.NumGoroutine()
	errs := make([]string, k)
	var wg sync.WaitGroup
	guarded(t, "concurrent decoding", func() {
		for i := range jobs {
			wg.Add(1)
			go func(i int) {
				defer wg.Done()
				j := jobs[i]
				for rep := 0; rep < 5; rep++ {
					b := roaring.New()
					var n int64
					var err error
					switch j.via {
					case 0:
						n, err = b.ReadFrom(&yieldReader{data: j.enc, step: j.step})
					case 1:
						n, err = b.FromBuffer(j.enc)
					default:
						n, err = b.FromUnsafeBytes(j.enc)
					}
					if err != nil || int(n) != len(j.enc) {
						errs[i] = fmt.Sprintf("decoder %d (via %d): n=%d/%d err=%v", i, j.via, n, len(j.enc), err)
						return
					}
					got := setOf(b)
					if got == nil || !got.Equal(j.want) {
						errs[i] = fmt.Sprintf("decoder %d (via %d) produced another bitmap than its own source: %s", i, j.via, model.Diff(j.want, got))
						return
					}
					runtime.Gosched()
				}
			}(i)
		}
		wg.Wait()
	})
	for _, e := range errs {
		if e != "" {
			t.Fatalf("independent bitmaps decoded concurrently from independent sources interfered: %s (after %d failing decodes)", e, nfail)
		}
	}
	settle(t, base, "concurrent decoding")
	inst.Count("C12", "concurrent-decode")
	inst.Case("C12", k >= 2, fmt.Sprintf("%d concurrent decoders after %d failing decodes", k, nfail))
}

func propC12BSI(t *rapid.T) {
	old := runtime.GOMAXPROCS(rapid.SampledFrom([]int{1, 2, 4, 16}).Draw(t, "GOMAXPROCS"))
	defer runtime.GOMAXPROCS(old)
	workers := rapid.SampledFrom([]int{0, 1, 2, 5, 16}).Draw(t, "workers")
	n := rapid.IntRange(1, 400).Draw(t, "ncols")
	stride := uint64(rapid.SampledFrom([]int{1, 7, 65536, 70001}).Draw(t, "stride"))
	mod := int64(rapid.SampledFrom([]int{2, 10, 1000}).Draw(t, "mod"))
	b64 := roaring64.NewDefaultBSI()
	b32 := bsi32.NewDefaultBSI()
	vals := map[uint64]int64{}
	for i := 0; i < n; i++ {
		c := uint64(i) * stride
		v := (int64(i)*7919 + 13) % mod
		b64.SetValue(c, v)
		b32.SetValue(c, v)
		vals[c] = v
	}
	pivot := mod / 2
	base := runtime.NumGoroutine()
	what := fmt.Sprintf("BSI parallel paths: %d columns stride %d values mod %d workers %d", n, stride, mod, workers)
	guarded(t, what, func() {
		var wantGE []uint64
		var sum int64
		mx := int64(-1)
		hist := map[uint64]int64{}
		for c, v := range vals {
			if v >= pivot {
				wantGE = append(wantGE, c)
			}
			sum += v
			if v > mx {
				mx = v
			}
			hist[uint64(v)]++
		}
		g64 := b64.CompareValue(workers, roaring64.GE, pivot, 0, nil)
		g32 := b32.CompareValue(workers, bsi32.GE, pivot, 0, nil)
		if g64.GetCardinality() != uint64(len(wantGE)) || g32.GetCardinality() != uint64(len(wantGE)) {
			panic(fmt.Sprintf("CompareValue(GE %d): 64-bit %d columns, 32-bit %d columns, want %d", pivot, g64.GetCardinality(), g32.GetCardinality(), len(wantGE)))
		}
		for _, c := range wantGE {
			if !g64.Contains(c) || !g32.Contains(uint32(c)) {
				panic(fmt.Sprintf("CompareValue(GE %d) misses column %d", pivot, c))
			}
		}
		if s, cnt := b64.Sum(nil); s != sum || cnt != uint64(n) {
			panic(fmt.Sprintf("BSI64 Sum=(%d,%d) want (%d,%d)", s, cnt, sum, n))
		}
		if s, cnt := b32.Sum(nil); s != sum || cnt != uint64(n) {
			panic(fmt.Sprintf("BSI32 Sum=(%d,%d) want (%d,%d)", s, cnt, sum, n))
		}
		if g := b64.MinMax(workers, roaring64.MAX, nil); g != mx {
			panic(fmt.Sprintf("BSI64 MinMax(MAX)=%d want %d", g, mx))
		}
		if g := b32.MinMax(workers, bsi32.MAX, nil); g != mx {
			panic(fmt.Sprintf("BSI32 MinMax(MAX)=%d want %d", g, mx))
		}
		// more workers than columns (idle workers), and a found-set of one column
		for _, w := range []int{workers, 5, 33} {
			one := roaring.BitmapOf(0)
			if g := b32.MinMax(w, bsi32.MIN, one); g != vals[0] {
				panic(fmt.Sprintf("BSI32 MinMax(%d workers, MIN, {0})=%d want %d", w, g, vals[0]))
			}
			one64 := roaring64.BitmapOf(0)
			if g := b64.MinMax(w, roaring64.MIN, one64); g != vals[0] {
				panic(fmt.Sprintf("BSI64 MinMax(%d workers, MIN, {0})=%d want %d", w, g, vals[0]))
			}
		}
		// an index wider than 63 planes takes the per-column goroutine path for comparisons: mixed signs over several batches
		{
			wide := roaring64.NewDefaultBSI()
			wantNeg := 0
			for i := 0; i < n; i++ {
				v := int64(i%7) - 3
				wide.SetValue(uint64(i)*stride, v)
				if v < 0 {
					wantNeg++
				}
			}
			hugeCol := uint64(n)*stride + 1
			wide.SetBigValue(hugeCol, new(big.Int).Lsh(big.NewInt(1), 70))
			got := wide.CompareBigValue(workers, roaring64.LT, big.NewInt(0), nil, nil)
			if int(got.GetCardinality()) != wantNeg {
				panic(fmt.Sprintf("BSI64 (71 planes) CompareBigValue(LT 0): %d columns want %d", got.GetCardinality(), wantNeg))
			}
			ge := wide.CompareBigValue(workers, roaring64.GE, big.NewInt(-1), nil, nil)
			wantGE := 1
			for i := 0; i < n; i++ {
				if int64(i%7)-3 >= -1 {
					wantGE++
				}
			}
			if int(ge.GetCardinality()) != wantGE {
				panic(fmt.Sprintf("BSI64 (71 planes) CompareBigValue(GE -1): %d columns want %d", ge.GetCardinality(), wantGE))
			}
		}
		tw := b64.TransposeWithCounts(workers, nil, roaring64.BitmapOf(func() []uint64 {
			var o []uint64
			for v := range hist {
				o = append(o, v)
			}
			return o
		}()...))
		for v, cnt := range hist {
			if g, _ := tw.GetValue(v); g != cnt {
				panic(fmt.Sprintf("BSI64 TransposeWithCounts: value %d counted %d want %d", v, g, cnt))
			}
		}
		var batch []int64
		for v := int64(0); v < mod && v < 40; v += 3 {
			batch = append(batch, v)
		}
		be := b32.BatchEqual(workers, batch)
		wantBE := 0
		for _, v := range vals {
			if v%3 == 0 && v < 40 {
				wantBE++
			}
		}
		if int(be.GetCardinality()) != wantBE {
			panic(fmt.Sprintf("BSI32 BatchEqual: %d columns want %d", be.GetCardinality(), wantBE))
		}
		// ParOr / ClearValues / NewBSIRetainSet fan out per plane
		o64 := roaring64.NewDefaultBSI()
		o64.SetValue(1<<40, 5)
		c64 := b64.Clone()
		c64.ParOr(workers, o64)
		if v, ok := c64.GetValue(1 << 40); !ok || v != 5 || c64.GetCardinality() != uint64(n)+1 {
			panic("BSI64 ParOr lost the merged column")
		}
		c64.ClearValues(roaring64.BitmapOf(1 << 40))
		if !c64.Equals(b64) && c64.GetCardinality() != uint64(n) {
			panic("BSI64 ClearValues after ParOr does not restore the index")
		}
		// a narrow receiver that holds negative values, operands with their own (larger) widths: the receiver
		// has to be widened and its negative values sign-extended while the planes are merged in parallel
		for _, impl := range []int{64, 32} {
			negv := -int64(rapid.SampledFrom([]int{1, 3, 7, 100}).Draw(t, "neg"))
			wide := int64(1)<<uint(rapid.SampledFrom([]int{3, 10, 20, 40}).Draw(t, "wide")) | 5
			wide2 := -(int64(1) << uint(rapid.SampledFrom([]int{2, 12, 33}).Draw(t, "wide2")))
			if impl == 64 {
				rc := roaring64.NewDefaultBSI()
				rc.SetValue(2, negv)
				rc.SetValue(9, 5)
				o1, o2 := roaring64.NewDefaultBSI(), roaring64.NewDefaultBSI()
				o1.SetValue(1<<33, wide)
				o1.SetValue(77, 1)
				o2.SetValue(3<<32+1, wide2)
				rc.ParOr(workers, o1, o2)
				for c, w := range map[uint64]int64{2: negv, 9: 5, 1 << 33: wide, 77: 1, 3<<32 + 1: wide2} {
					if g, ok := rc.GetValue(c); !ok || g != w {
						panic(fmt.Sprintf("BSI64 ParOr(receiver {2:%d,9:5}, operands {2^33:%d,77:1},{3*2^32+1:%d}): column %d reads (%d,%v) want %d", negv, wide, wide2, c, g, ok, w))
					}
				}
			} else {
				rc := bsi32.NewDefaultBSI()
				rc.SetValue(2, negv)
				rc.SetValue(9, 5)
				o1, o2 := bsi32.NewDefaultBSI(), bsi32.NewDefaultBSI()
				o1.SetValue(1<<20, wide)
				o1.SetValue(77, 1)
				o2.SetValue(3<<16+1, wide2)
				rc.ParOr(workers, o1, o2)
				for c, w := range map[uint64]int64{2: negv, 9: 5, 1 << 20: wide, 77: 1, 3<<16 + 1: wide2} {
					if g, ok := rc.GetValue(c); !ok || g != w {
						panic(fmt.Sprintf("BSI32 ParOr(receiver {2:%d,9:5}, operands {2^20:%d,77:1},{3*2^16+1:%d}): column %d reads (%d,%v) want %d", negv, wide, wide2, c, g, ok, w))
					}
				}
			}
		}
		// the other way round: a wide target, narrow operands (most planes have nothing to merge), few workers
		for _, w := range []int{1, 2, workers} {
			t32 := bsi32.NewDefaultBSI()
			t32.SetValue(4, 1<<40|3)
			t32.SetValue(8, 6)
			o32 := bsi32.NewDefaultBSI()
			o32.SetValue(70000, 5)
			t32.ParOr(w, o32)
			for c, wv := range map[uint64]int64{4: 1<<40 | 3, 8: 6, 70000: 5} {
				if g, ok := t32.GetValue(c); !ok || g != wv {
					panic(fmt.Sprintf("BSI32 ParOr(%d) of a 41-plane target with a 3-plane operand: column %d reads (%d,%v) want %d", w, c, g, ok, wv))
				}
			}
			t64 := roaring64.NewDefaultBSI()
			t64.SetValue(4, 1<<40|3)
			o64b := roaring64.NewDefaultBSI()
			o64b.SetValue(1<<35, 5)
			t64.ParOr(w, o64b)
			if g, ok := t64.GetValue(1 << 35); !ok || g != 5 {
				panic(fmt.Sprintf("BSI64 ParOr(%d) of a wide target with a narrow operand: column 2^35 reads (%d,%v) want 5", w, g, ok))
			}
		}
		r := b64.NewBSIRetainSet(g64)
		if r.GetCardinality() != uint64(len(wantGE)) {
			panic("BSI64 NewBSIRetainSet cardinality")
		}
	})
	settle(t, base, what)
	inst.Count("C12", "bsi-parallel")
	inst.Case("C12", n >= 2 && workers != 1, what)
}

func TestC12Aggregates(t *testing.T) { rapid.Check(t, propC12Aggregates) }
func TestC12Decode(t *testing.T)     { rapid.Check(t, propC12Decode) }
func TestC12BSI(t *testing.T)        { rapid.Check(t, propC12BSI) }

// TestRegressC12SingleProc: the aggregates in a process that STARTS with GOMAXPROCS=1 (whatever the package
// derives from the processor count at start-up is derived from 1 there). Run as a child process with a watchdog.
func TestRegressC12SingleProc(t *testing.T) {
	if os.Getenv("VERIF_C12_CHILD") == "1" {
		a, b, c := roaring.New(), roaring.New(), roaring.New()
		for k := uint32(0); k < 40; k++ {
			a.Add(k<<16 | 1)
			b.Add(k<<16 | 2)
			if k%2 == 0 {
				c.Add(k<<16 | 1)
			}
			a.Add(k<<16 | 9)
			b.Add(k<<16 | 9)
			c.Add(k<<16 | 9)
		}
		for _, w := range []int{0, 1, 3} {
			if g := roaring.ParOr(w, a, b, c).GetCardinality(); g != 120 {
				fmt.Printf("CHILD-FAIL ParOr(%d)=%d want 120\n", w, g)
				os.Exit(3)
			}
			if g := roaring.ParHeapOr(w, a, b, c).GetCardinality(); g != 120 {
				fmt.Printf("CHILD-FAIL ParHeapOr(%d)=%d want 120\n", w, g)
				os.Exit(3)
			}
			if g := roaring.ParAnd(w, a, b, c).GetCardinality(); g != 40 {
				fmt.Printf("CHILD-FAIL ParAnd(%d)=%d want 40\n", w, g)
				os.Exit(3)
			}
		}
		x, y := roaring64.New(), roaring64.New()
		for k := uint64(0); k < 40; k++ {
			x.Add(k<<32 | 1)
			y.Add(k<<32 | 2)
		}
		if g := roaring64.ParOr(0, x, y, x).GetCardinality(); g != 80 {
			fmt.Printf("CHILD-FAIL roaring64.ParOr(0)=%d want 80\n", g)
			os.Exit(3)
		}
		fmt.Println("CHILD-OK")
		return
	}
	cmd := exec.Command(os.Args[0], "-test.run=^TestRegressC12SingleProc$")
	cmd.Env = append(os.Environ(), "VERIF_C12_CHILD=1", "GOMAXPROCS=1", "VERIF_STATS=")
	var out bytes.Buffer
	cmd.Stdout, cmd.Stderr = &out, &out
	if err := cmd.Start(); err != nil {
		t.Skipf("cannot spawn: %v", err)
	}
	done := make(chan error, 1)
	go func() { done <- cmd.Wait() }()
	select {
	case err := <-done:
		if err != nil || !strings.Contains(out.String(), "CHILD-OK") {
			o := out.String()
			if len(o) > 1500 {
				o = o[:1500]
			}
			t.Fatalf("parallel aggregates in a process started with GOMAXPROCS=1: %v\n%s", err, o)
		}
	case <-time.After(300 * time.Second):
		cmd.Process.Kill()
		t.Fatalf("parallel aggregates in a process started with GOMAXPROCS=1 did not finish within 300 s (deadlock): %s", out.String())
	}
}
