package pbsi

import (
	"testing"

	bsi32 "github.com/RoaringBitmap/roaring/v2/BitSliceIndexing"
	"github.com/RoaringBitmap/roaring/v2/roaring64"

	"verifharness/inst"
)

// Literal inputs of the findings recorded as status=known in KNOWN_FINDINGS.json.
// While one still reproduces, the check prints a KNOWN-FINDING line (and stays green);
// the generated search excludes exactly these shapes and asserts everything around them.

func TestRegressC19KnownMarshalSignPlane(t *testing.T) {
	b := roaring64.NewDefaultBSI()
	b.SetValue(1, -5)
	data, err := b.MarshalBinary()
	if err != nil {
		t.Fatal(err)
	}
	n := roaring64.NewDefaultBSI()
	if err := n.UnmarshalBinary(data); err != nil {
		t.Fatal(err)
	}
	if v, ok := n.GetValue(1); !ok || v != -5 {
		inst.Known("C19", "id=bsi64-marshal-sign-plane roaring64.BSI.MarshalBinary omits the sign plane: {1:-5} -> MarshalBinary -> UnmarshalBinary reads back a non-negative number")
	}
}

// known32CompareReproduces / known32MinMax* run the literal inputs of the known 32-bit findings. The
// generators exclude those shapes only while the findings reproduce: once the library is repaired the
// exclusions lift by themselves and the full domain is searched.
func known32CompareReproduces() bool {
	b := bsi32.NewDefaultBSI()
	b.SetValue(1, -1000)
	b.SetValue(2, 1)
	got := b.CompareValue(1, bsi32.GT, -1, 0, nil).ToArray()
	return len(got) != 1 || got[0] != 2
}

func known32MinMaxMixedReproduces() bool {
	b := bsi32.NewDefaultBSI()
	b.SetValue(1, -1000)
	b.SetValue(2, 1)
	return b.MinMax(1, bsi32.MAX, nil) != 1
}

func known32MinMaxSentinelReproduces() bool {
	z := bsi32.NewBSI(255, 0)
	z.SetValue(0, 0)
	o := bsi32.NewDefaultBSI()
	o.SetValue(1, 3)
	o.SetValue(2, 3)
	return z.MinMax(1, bsi32.MAX, nil) != 0 || o.MinMax(1, bsi32.MIN, nil) != 3
}

func known64MarshalReproduces() bool {
	b := roaring64.NewDefaultBSI()
	b.SetValue(1, -5)
	data, err := b.MarshalBinary()
	if err != nil {
		return true
	}
	n := roaring64.NewDefaultBSI()
	if err := n.UnmarshalBinary(data); err != nil {
		return true
	}
	v, ok := n.GetValue(1)
	return !ok || v != -5
}

func TestRegressC20BSI32CompareMixedSigns(t *testing.T) {
	if known32CompareReproduces() { // fixed in 048f1c6: a fixed finding suppresses nothing
		t.Fatalf("BitSliceIndexing.BSI.CompareValue is wrong again for mixed signs: GT -1 over {1:-1000, 2:1} does not return [2]")
	}
}

func TestRegressC20BSI32MinMax(t *testing.T) {
	if known32MinMaxMixedReproduces() { // fixed in fc630c0
		t.Fatalf("BitSliceIndexing.BSI.MinMax is wrong again for mixed signs: MAX over {1:-1000, 2:1} != 1")
	}
	if known32MinMaxSentinelReproduces() { // fixed in fc630c0
		t.Fatalf("BitSliceIndexing.BSI.MinMax returns its start sentinel again: MAX over {0:0} = MinInt64 or MIN over {1:3, 2:3} = MaxInt64")
	}
}

func TestRegressC19Fixed(t *testing.T) {
	b := roaring64.NewBSI(1000, -1000)
	b.SetValue(0, -1000)
	if v, _ := b.Clone().GetValue(0); v != -1000 {
		t.Fatalf("BSI64 Clone lost the sign: %d", v)
	}
	a := roaring64.NewDefaultBSI()
	a.SetValue(0, -1)
	o := roaring64.NewDefaultBSI()
	o.SetValue(1, 2)
	a.ParOr(0, o)
	if v, _ := a.GetValue(0); v != -1 {
		t.Fatalf("BSI64 ParOr between different widths: column 0 = %d, want -1", v)
	}
	r := roaring64.NewDefaultBSI()
	r.SetValue(0, 1000)
	r.RunOptimize()
	n := roaring64.NewDefaultBSI()
	n.SetValue(1, 1)
	r.ParOr(0, n) // panicked: index out of range
	x, y, z := bsi32.NewDefaultBSI(), bsi32.NewDefaultBSI(), bsi32.NewDefaultBSI()
	x.SetValue(0, 0)
	y.SetValue(1, 1)
	z.SetValue(2, 0)
	tgt := bsi32.NewDefaultBSI()
	tgt.ParOr(0, x, y, z)
	if v, _ := tgt.GetValue(1); v != 1 {
		t.Fatalf("BSI32 ParOr lost the value of a wider operand: %d", v)
	}
}

func TestRegressC20Fixed(t *testing.T) {
	b := roaring64.NewBSI(1<<62, -(1 << 62))
	b.SetValue(0, -1)
	if s, _ := b.SumBigValues(nil); s.Int64() != -1 || !s.IsInt64() {
		t.Fatalf("BSI64 SumBigValues over {-1} in a 64-plane index = %s", s)
	}
}
