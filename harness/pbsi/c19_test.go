package pbsi

import (
	"fmt"
	"math"
	"math/big"
	"strings"
	"testing"

	bsi32 "github.com/RoaringBitmap/roaring/v2/BitSliceIndexing"
	"github.com/RoaringBitmap/roaring/v2/roaring64"
	"pgregory.net/rapid"

	"verifharness/inst"
)

type flavour struct {
	name     string
	max, min int64 // 0,0 = auto-sized
}

var flavours = []flavour{
	{"auto", 0, 0}, {"auto", 0, 0}, {"auto", 0, 0},
	{"fixed[0,255]", 255, 0},
	{"fixed[-1000,1000]", 1000, -1000},
	{"fixed[0,2^40]", 1 << 40, 0},
	{"fixed[-2^62,2^62]", 1 << 62, -(1 << 62)},
}

var autoValues = []int64{0, 0, 1, -1, 2, 3, 5, 7, 8, 100, 255, 256, -256, 1000, 65535, 65536, 1 << 31, -(1 << 31), 1 << 40, -(1 << 40), 1 << 60, 1 << 61, -(1 << 61), 1<<62 - 1, 1 << 62, -(1 << 62), math.MaxInt64, math.MinInt64, math.MinInt64 + 1}

func newIndex(is64 bool, f flavour) index {
	if is64 {
		return idx64{roaring64.NewBSI(f.max, f.min)}
	}
	return idx32{bsi32.NewBSI(f.max, f.min)}
}

func drawValue(t *rapid.T, label string, f flavour, nonNeg bool) int64 {
	var v int64
	if f.max == 0 && f.min == 0 {
		if rapid.IntRange(0, 3).Draw(t, label+".rnd") == 0 {
			v = rapid.Int64Range(-5000, 5000).Draw(t, label)
		} else {
			v = rapid.SampledFrom(autoValues).Draw(t, label)
		}
	} else {
		switch rapid.IntRange(0, 3).Draw(t, label+".edge") {
		case 0:
			v = f.min
		case 1:
			v = f.max
		case 2:
			v = rapid.SampledFrom([]int64{0, 1, -1, f.min + 1, f.max - 1}).Draw(t, label)
			if v < f.min || v > f.max {
				v = f.max
			}
		default:
			v = rapid.Int64Range(f.min, f.max).Draw(t, label)
		}
	}
	if nonNeg && v < 0 {
		if v == math.MinInt64 {
			v = 0
		} else {
			v = -v
		}
		if !(f.max == 0 && f.min == 0) && v > f.max {
			v = f.max
		}
	}
	return v
}

// checkIndex compares every column of the universe (present and absent ones).
func checkIndex(x index, m map[uint64]*big.Int, u []uint64) string {
	if g := x.Card(); g != uint64(len(m)) {
		return fmt.Sprintf("GetCardinality=%d, map holds %d columns", g, len(m))
	}
	for _, c := range u {
		want, ok := m[c]
		if g := x.Exists(c); g != ok {
			return fmt.Sprintf("ValueExists(%d)=%v want %v", c, g, ok)
		}
		got, gok := x.Get(c)
		if gok != ok {
			return fmt.Sprintf("Get(%d) exists=%v want %v", c, gok, ok)
		}
		if ok && got.Cmp(want) != 0 {
			return fmt.Sprintf("column %d holds %s, want %s", c, got, want)
		}
		if ok && want.IsInt64() {
			gi, giok := x.GetInt(c)
			if !giok || gi != want.Int64() {
				return fmt.Sprintf("GetValue(%d)=(%d,%v) want %s", c, gi, giok, want)
			}
		}
	}
	if x64, ok := x.(idx64); ok {
		// bulk getters with duplicate and missing ids
		ids := append(append([]uint64{}, u...), u[0], u[len(u)-1], 4242424242)
		bv := x64.b.GetBigValues(ids)
		allInt := true
		for i, c := range ids {
			want, ok := m[c]
			if ok != (bv[i] != nil) || (ok && bv[i].Cmp(want) != 0) {
				return fmt.Sprintf("GetBigValues[%d] (column %d) = %v, want %v (exists=%v)", i, c, bv[i], want, ok)
			}
			if ok && !want.IsInt64() {
				allInt = false
			}
		}
		if allInt {
			vs, ex := x64.b.GetValues(ids)
			for i, c := range ids {
				want, ok := m[c]
				if ex[i] != ok || (ok && vs[i] != want.Int64()) {
					return fmt.Sprintf("GetValues[%d] (column %d) = (%d,%v), want %v (exists=%v)", i, c, vs[i], ex[i], want, ok)
				}
			}
		}
	}
	return ""
}

func cloneMap(m map[uint64]*big.Int) map[uint64]*big.Int {
	o := make(map[uint64]*big.Int, len(m))
	for k, v := range m {
		o[k] = new(big.Int).Set(v)
	}
	return o
}

func allNonNegBelow(m map[uint64]*big.Int, limit int64) bool {
	for _, v := range m {
		if v.Sign() < 0 || v.Cmp(big.NewInt(limit)) > 0 {
			return false
		}
	}
	return true
}

func hasNeg(m map[uint64]*big.Int) bool {
	for _, v := range m {
		if v.Sign() < 0 {
			return true
		}
	}
	return false
}

func propC19(t *rapid.T, is64 bool) {
	f := rapid.SampledFrom(flavours).Draw(t, "flavour")
	x := newIndex(is64, f)
	m := map[uint64]*big.Int{}
	u := universe(is64)
	var ops []string
	log := func(s string, a ...interface{}) { ops = append(ops, fmt.Sprintf(s, a...)) }
	hist := func() string { return fmt.Sprintf("%s %s: %s", x.Name(), f.name, strings.Join(ops, "; ")) }
	fail := func(s string, a ...interface{}) {
		t.Fatalf("%s\n  history: %s\n  map: %s", fmt.Sprintf(s, a...), hist(), descMap(m))
	}
	type kept struct {
		x index
		m map[uint64]*big.Int
	}
	var originals, operands []kept
	bulk := false
	const bulkBase = uint64(7 << 16) // chunk 7: none of the universe's columns lives there
	sawNeg, sawWiden, copyAfter := false, false, false
	width := x.BitCount()
	auto := f.max == 0 && f.min == 0

	t.Repeat(map[string]func(*rapid.T){
		"SetValue": func(t *rapid.T) {
			c := rapid.SampledFrom(u).Draw(t, "col")
			v := drawValue(t, "v", f, false)
			log("SetValue(%d,%d)", c, v)
			x.SetValue(c, v)
			m[c] = big.NewInt(v)
		},
		"SetBigValue": func(t *rapid.T) {
			if !is64 || !auto {
				t.Skip("big values: 64-bit auto-sized index only")
			}
			c := rapid.SampledFrom(u).Draw(t, "col")
			v := new(big.Int).Lsh(big.NewInt(rapid.Int64Range(-9, 9).Draw(t, "mant")), uint(rapid.SampledFrom([]int{0, 31, 62, 63, 64, 70, 100}).Draw(t, "shift")))
			v.Add(v, big.NewInt(rapid.Int64Range(-3, 3).Draw(t, "plus")))
			log("SetBigValue(%d,%s)", c, v)
			x.SetBig(c, v)
			m[c] = v
		},
		"SetMany": func(t *rapid.T) {
			cols := drawCols(t, "cols", u, 0)
			v := drawValue(t, "v", f, false)
			log("SetMany(%v,%d)", cols, v)
			x.SetMany(cols, v)
			for _, c := range cols {
				m[c] = big.NewInt(v)
			}
		},
		"ClearValues": func(t *rapid.T) {
			cols := drawCols(t, "cols", u, 0)
			log("ClearValues(%v)", cols)
			x.Clear(cols)
			for _, c := range cols {
				delete(m, c)
			}
		},
		"SetManyComb": func(t *rapid.T) {
			// thousands of scattered columns in one 65536-chunk (the existence and plane bitmaps become
			// bitmap containers there), all with one value
			if bulk {
				t.Skip("one comb per history")
			}
			bulk = true
			step := uint64(rapid.IntRange(2, 5).Draw(t, "step"))
			n := rapid.IntRange(4097, 6000).Draw(t, "n")
			v := drawValue(t, "v", f, false)
			cols := make([]uint64, 0, n)
			for i, c := 0, bulkBase; i < n; i, c = i+1, c+step {
				cols = append(cols, c)
			}
			log("SetMany(%d columns from %d step %d, %d)", n, bulkBase, step, v)
			x.SetMany(cols, v)
			for _, c := range cols {
				m[c] = big.NewInt(v)
			}
			// probe a few of them from now on
			u = append(append([]uint64(nil), u...), cols[0], cols[1], cols[n/2], cols[n-1], cols[n-1]+1, bulkBase+1)
		},
		"ClearRange": func(t *rapid.T) {
			// ClearValues with a found-set that is one interval (a run container), ending on / next to a 64-column word edge
			if !bulk {
				t.Skip("needs the comb")
			}
			lo := bulkBase + uint64(rapid.IntRange(0, 20000).Draw(t, "lo"))
			hi := lo + uint64(rapid.IntRange(0, 3000).Draw(t, "len"))
			switch rapid.IntRange(0, 3).Draw(t, "edge") {
			case 0:
				hi = hi &^ 63
			case 1:
				hi = hi | 63
			}
			if hi < lo {
				hi = lo
			}
			log("ClearValues(range %d..%d)", lo, hi)
			x.ClearRange(lo, hi)
			for c := lo; c <= hi; c++ {
				delete(m, c)
			}
		},
		"Retain": func(t *rapid.T) {
			cols := drawCols(t, "cols", u, 0)
			keep := map[uint64]bool{}
			for _, c := range cols {
				keep[c] = true
			}
			before := len(m)
			dropped, ok := x.Retain(cols)
			if !ok {
				t.Skip("no Retain in this implementation")
			}
			log("Retain(%v)", cols)
			for c := range m {
				if !keep[c] {
					delete(m, c)
				}
			}
			if int(dropped) != before-len(m) {
				fail("Retain reported %d dropped columns, %d were dropped", dropped, before-len(m))
			}
		},
		"ParOr": func(t *rapid.T) {
			// separately built indexes on columns this one does not hold, with their own widths
			var free []uint64
			for _, c := range u {
				if _, ok := m[c]; !ok {
					free = append(free, c)
				}
			}
			if len(free) == 0 {
				t.Skip("no free column")
			}
			n := rapid.IntRange(1, 3).Draw(t, "nothers")
			var others []index
			var otherMaps []map[uint64]*big.Int
			add := map[uint64]*big.Int{}
			desc := ""
			for i := 0; i < n && len(free) > 0; i++ {
				o := newIndex(is64, f)
				omap := map[uint64]*big.Int{}
				otherMaps = append(otherMaps, omap)
				k := rapid.IntRange(1, 2).Draw(t, "ncols")
				for j := 0; j < k && len(free) > 0; j++ {
					ci := rapid.IntRange(0, len(free)-1).Draw(t, "free")
					c := free[ci]
					free = append(free[:ci], free[ci+1:]...)
					v := drawValue(t, "pv", f, false)
					o.SetValue(c, v)
					add[c] = big.NewInt(v)
					omap[c] = big.NewInt(v)
					desc += fmt.Sprintf("[%d:%d]", c, v)
				}
				desc += "|"
				others = append(others, o)
			}
			w := rapid.SampledFrom([]int{0, 1, 2, 5}).Draw(t, "workers")
			log("ParOr(%d, %s)", w, desc)
			x.ParOr(w, others...)
			for i, o := range others {
				originals = append(originals, kept{o, otherMaps[i]})
			}
			for c, v := range add {
				m[c] = v
			}
		},
		"Increment": func(t *rapid.T) {
			if !allNonNegBelow(m, 1<<60) || (!auto && f.max < 1<<61) {
				t.Skip("Increment is specified for non-negative values inside the range")
			}
			var cols []uint64
			if rapid.Bool().Draw(t, "all") {
				log("IncrementAll()")
				x.Increment(nil)
				cols = sortedKeys(m)
			} else {
				cols = drawCols(t, "cols", u, 0)
				log("Increment(%v)", cols)
				x.Increment(cols)
			}
			for _, c := range cols {
				if v, ok := m[c]; ok {
					m[c] = new(big.Int).Add(v, big.NewInt(1))
				} else {
					m[c] = big.NewInt(1)
				}
			}
		},
		"Add": func(t *rapid.T) {
			if !allNonNegBelow(m, 1<<60) || (!auto && f.max < 1<<61) {
				t.Skip("Add is specified for non-negative values inside the range")
			}
			o := newIndex(is64, f)
			om := map[uint64]*big.Int{}
			for _, c := range drawCols(t, "cols", u, 1) {
				v := drawValue(t, "av", f, true)
				if v > 1<<60 {
					v = 1 << 60
				}
				o.SetValue(c, v)
				om[c] = big.NewInt(v)
			}
			if len(operands) > 0 && rapid.IntRange(0, 2).Draw(t, "again") == 0 {
				// an operand that was added before (it must still hold what it held then)
				k := operands[rapid.IntRange(0, len(operands)-1).Draw(t, "which")]
				if d := checkIndex(k.x, k.m, u); d != "" {
					fail("an index that was the argument of an earlier Add changed afterwards: %s", d)
				}
				o, om = k.x, k.m
				log("Add(again: %s)", descMap(om))
			} else {
				log("Add(%s)", descMap(om))
				operands = append(operands, kept{o, cloneMap(om)})
			}
			x.AddIndex(o)
			for c, v := range om {
				if cur, ok := m[c]; ok {
					m[c] = new(big.Int).Add(cur, v)
				} else {
					m[c] = new(big.Int).Set(v)
				}
			}
		},
		"Clone": func(t *rapid.T) {
			log("Clone() and continue on the clone")
			originals = append(originals, kept{x, cloneMap(m)})
			nx := x.Clone()
			if eq, ok := nx.EqualsIdx(x); ok && !eq {
				fail("Clone() is not Equals its original")
			}
			x = nx
			copyAfter = copyAfter || (sawNeg && sawWiden)
		},
		"NewBSIRetainSet": func(t *rapid.T) {
			cols := drawCols(t, "cols", u, 0)
			if rapid.Bool().Draw(t, "everything") {
				cols = sortedKeys(m)
			}
			log("NewBSIRetainSet(%v) and continue on it", cols)
			originals = append(originals, kept{x, cloneMap(m)})
			x = x.RetainSet(cols)
			keep := map[uint64]bool{}
			for _, c := range cols {
				keep[c] = true
			}
			for c := range m {
				if !keep[c] {
					delete(m, c)
				}
			}
			copyAfter = copyAfter || (sawNeg && sawWiden)
		},
		"MarshalRoundTrip": func(t *rapid.T) {
			if is64 && hasNeg(m) && known64MarshalReproduces() {
				// KNOWN FINDING (KNOWN_FINDINGS.json, bsi64-marshal-sign-plane): excluded by construction,
				// reported by TestRegressC19 while it still reproduces
				inst.Count("C19", "avoided:known-finding bsi64-marshal-sign-plane")
				t.Skip("known finding")
			}
			// always into a fresh index: UnmarshalBinary(bitData) fills and extends the planes of its receiver
			// and never truncates them, i.e. it is written for a new index (only ReadFrom resets its receiver)
			usedReceiver = 0
			log("MarshalBinary -> UnmarshalBinary")
			nx, err := x.MarshalRoundTrip()
			if err != nil {
				fail("marshal round trip: %v", err)
			}
			if eq, ok := nx.EqualsIdx(x); ok && !eq {
				fail("MarshalBinary/UnmarshalBinary result is not Equals the original")
			}
			x = nx
			copyAfter = copyAfter || (sawNeg && sawWiden)
		},
		"StreamRoundTrip": func(t *rapid.T) {
			usedReceiver = rapid.IntRange(0, 2).Draw(t, "receiver")
			defer func() { usedReceiver = 0 }()
			nx, err, ok := x.StreamRoundTrip()
			if !ok {
				t.Skip("no WriteTo/ReadFrom in this implementation")
			}
			log("WriteTo -> ReadFrom (receiver class %d)", usedReceiver)
			if err != nil {
				fail("stream round trip: %v", err)
			}
			if eq, ok := nx.EqualsIdx(x); ok && !eq {
				fail("WriteTo/ReadFrom result is not Equals the original")
			}
			x = nx
			copyAfter = copyAfter || (sawNeg && sawWiden)
		},
		"RunOptimize": func(t *rapid.T) {
			log("RunOptimize()")
			x.RunOptimize()
		},
		"": func(t *rapid.T) {
			if d := checkIndex(x, m, u); d != "" {
				fail("index != map: %s", d)
			}
			if hasNeg(m) {
				sawNeg = true
			}
			if w := x.BitCount(); w > width {
				sawWiden = true
				width = w
			}
		},
	})
	for i, o := range operands {
		if d := checkIndex(o.x, o.m, u); d != "" {
			fail("index that was the argument of Add changed afterwards (operand #%d): %s", i, d)
		}
	}
	for i, o := range originals {
		if d := checkIndex(o.x, o.m, u); d != "" {
			fail("index that was copied at some point changed afterwards (original #%d): %s", i, d)
		}
	}
	inst.Count("C19", x.Name()+":"+f.name)
	inst.Case("C19", sawNeg && sawWiden && copyAfter, hist())
}

func TestC19x64(t *testing.T) { rapid.Check(t, func(t *rapid.T) { propC19(t, true) }) }
func TestC19x32(t *testing.T) { rapid.Check(t, func(t *rapid.T) { propC19(t, false) }) }
