package pbsi

import (
	"fmt"
	"math/big"
	"sort"
	"strings"
	"testing"

	"github.com/RoaringBitmap/roaring/v2/roaring64"
	"pgregory.net/rapid"

	"verifharness/inst"
)

const (
	opLT = 1 + iota
	opLE
	opEQ
	opGE
	opGT
	opRANGE
)

var opName = map[int]string{opLT: "LT", opLE: "LE", opEQ: "EQ", opGE: "GE", opGT: "GT", opRANGE: "RANGE"}

func holds(op int, v, a, b *big.Int) bool {
	switch op {
	case opLT:
		return v.Cmp(a) < 0
	case opLE:
		return v.Cmp(a) <= 0
	case opEQ:
		return v.Cmp(a) == 0
	case opGE:
		return v.Cmp(a) >= 0
	case opGT:
		return v.Cmp(a) > 0
	}
	return v.Cmp(a) >= 0 && v.Cmp(b) <= 0
}

func sameCols(a, b []uint64) bool {
	if len(a) != len(b) {
		return false
	}
	for i := range a {
		if a[i] != b[i] {
			return false
		}
	}
	return true
}

// mixedSigns reports whether the numbers involved contain both a negative and a non-negative one.
func mixedSigns(vals ...*big.Int) bool {
	neg, nonneg := false, false
	for _, v := range vals {
		if v.Sign() < 0 {
			neg = true
		} else {
			nonneg = true
		}
	}
	return neg && nonneg
}

func propC20(t *rapid.T, is64 bool) {
	f := rapid.SampledFrom(flavours).Draw(t, "flavour")
	x := newIndex(is64, f)
	u := universe(is64)
	m := map[uint64]*big.Int{}
	// stored map: duplicates, extremes, single column, empty
	n := rapid.SampledFrom([]int{0, 1, 2, 3, 5, 8, 12}).Draw(t, "ncols")
	signMode := 0 // 0 any, 1 non-negative, 2 negative (both implementations are searched over the full domain)
	var pool []int64
	for i := 0; i < 4; i++ {
		v := drawValue(t, "pool", f, signMode == 1)
		if signMode == 2 {
			if v > 0 {
				v = -v
			}
			if v == 0 {
				v = -1
			}
			if !(f.max == 0 && f.min == 0) && v < f.min {
				v = f.min
			}
			if f.min >= 0 {
				v = 0
			}
		}
		pool = append(pool, v)
	}
	for i := 0; i < n; i++ {
		c := rapid.SampledFrom(u).Draw(t, "col")
		v := rapid.SampledFrom(pool).Draw(t, "val") // duplicates on purpose
		x.SetValue(c, v)
		m[c] = big.NewInt(v)
	}
	if rapid.Bool().Draw(t, "runopt") {
		x.RunOptimize()
	}
	cols := sortedKeys(m)
	desc := fmt.Sprintf("%s %s map=%s", x.Name(), f.name, descMap(m))
	fail := func(s string, a ...interface{}) { t.Fatalf("%s\n  %s", fmt.Sprintf(s, a...), desc) }
	if d := checkIndex(x, m, u); d != "" {
		fail("harness precondition: stored map not readable: %s", d)
	}
	// found-set
	var found []uint64
	foundNil := false
	fclass := rapid.SampledFrom([]string{"nil", "all", "subset", "single", "existence"}).Draw(t, "found")
	switch fclass {
	case "nil":
		foundNil = true
		found = cols
	case "all", "existence":
		found = append([]uint64{}, cols...)
	case "subset":
		found = []uint64{}
		for _, c := range cols {
			if rapid.Bool().Draw(t, "in") {
				found = append(found, c)
			}
		}
	case "single":
		found = []uint64{}
		if len(cols) > 0 {
			found = []uint64{rapid.SampledFrom(cols).Draw(t, "one")}
		}
	}
	inFound := map[uint64]bool{}
	for _, c := range found {
		inFound[c] = true
	}
	workers := rapid.SampledFrom([]int{0, 1, 2, 5, 16}).Draw(t, "workers")

	// --- comparisons
	for q := 0; q < 6; q++ {
		op := rapid.IntRange(opLT, opRANGE).Draw(t, "op")
		// constants: stored values +-1, range edges, pool values
		cand := append([]int64{}, pool...)
		for _, v := range pool {
			if v > -(1<<63)+1 {
				cand = append(cand, v-1)
			}
			if v < 1<<63-1 {
				cand = append(cand, v+1)
			}
		}
		if !(f.max == 0 && f.min == 0) {
			cand = append(cand, f.min, f.max)
		}
		pickConst := func(label string) int64 {
			v := rapid.SampledFrom(cand).Draw(t, label)
			if !(f.max == 0 && f.min == 0) {
				if v < f.min {
					v = f.min
				}
				if v > f.max {
					v = f.max
				}
			}
			// constants must lie inside what the index can represent with its current planes
			if bc := x.BitCount(); bc < 63 {
				hi := int64(1)<<uint(bc) - 1
				lo := -hi - 1
				if !is64 {
					lo = 0
				}
				if v > hi {
					v = hi
				}
				if v < lo {
					v = lo
				}
			}
			if signMode == 1 && v < 0 {
				v = 0
			}
			if signMode == 2 && v >= 0 {
				v = -1
			}
			return v
		}
		a := pickConst("a")
		b := pickConst("b")
		if op == opRANGE && a > b {
			a, b = b, a
		}
		if len(m) == 0 {
			break
		}
		got := x.Compare(workers, op, a, b, found, foundNil)
		var want []uint64
		for _, c := range cols {
			if inFound[c] && holds(op, m[c], big.NewInt(a), big.NewInt(b)) {
				want = append(want, c)
			}
		}
		if !sameCols(got, want) {
			fail("CompareValue(workers=%d, %s, %d, %d, found=%s%v) = %v, want %v", workers, opName[op], a, b, fclass, found, got, want)
		}
	}
	// --- BatchEqual
	{
		var vals []int64
		for i := 0; i < rapid.IntRange(0, 5).Draw(t, "nbatch"); i++ {
			vals = append(vals, rapid.SampledFrom(pool).Draw(t, "bval")+int64(rapid.IntRange(0, 1).Draw(t, "boff")))
		}
		got := x.BatchEqual(workers, vals)
		var want []uint64
		for _, c := range cols {
			for _, v := range vals {
				if m[c].Cmp(big.NewInt(v)) == 0 {
					want = append(want, c)
					break
				}
			}
		}
		if len(vals) > 0 && !sameCols(got, want) {
			fail("BatchEqual(workers=%d, %v) = %v, want %v", workers, vals, got, want)
		}
		if x64, ok := x.(idx64); ok && len(vals) > 0 {
			bigs := make([]*big.Int, len(vals))
			for i, v := range vals {
				bigs[i] = big.NewInt(v)
			}
			if g := x64.b.BatchEqualBig(workers, bigs).ToArray(); !sameCols(g, want) {
				fail("BatchEqualBig(%v) = %v, want %v", vals, g, want)
			}
			pairs := x64.b.BatchEqualValues(workers, vals, found64(found, foundNil))
			var gp []string
			for _, p := range pairs {
				gp = append(gp, fmt.Sprintf("%d:%d", p.ColumnID, p.Value))
			}
			sort.Strings(gp)
			var wp []string
			for _, c := range want {
				if inFound[c] {
					wp = append(wp, fmt.Sprintf("%d:%s", c, m[c]))
				}
			}
			sort.Strings(wp)
			if strings.Join(gp, ",") != strings.Join(wp, ",") {
				fail("BatchEqualValues(%v, found=%s%v) = %v, want %v", vals, fclass, found, gp, wp)
			}
		}
	}
	// --- MinMax over a non-empty set
	if len(found) > 0 {
		var mn, mx *big.Int
		for _, c := range found {
			v := m[c]
			if mn == nil || v.Cmp(mn) < 0 {
				mn = v
			}
			if mx == nil || v.Cmp(mx) > 0 {
				mx = v
			}
		}
		skipMin, skipMax := false, false
		// (a query over everything first: nothing it leaves behind may show in the query over the found-set)
		if len(cols) > len(found) {
			x.MinMax(workers, false, nil, true)
			x.MinMax(workers, true, cols, false)
		}
		if g := x.MinMax(workers, false, found, foundNil); !skipMin && g.Cmp(mn) != 0 {
			fail("MinMax(MIN, workers=%d, found=%s%v) = %s, want %s", workers, fclass, found, g, mn)
		}
		if g := x.MinMax(workers, true, found, foundNil); !skipMax && g.Cmp(mx) != 0 {
			fail("MinMax(MAX, workers=%d, found=%s%v) = %s, want %s", workers, fclass, found, g, mx)
		}
	}
	// --- Sum (magnitudes bounded so that the true sum fits int64)
	{
		sum := new(big.Int)
		fits := true
		for _, c := range found {
			sum.Add(sum, m[c])
			if m[c].BitLen() > 58 {
				fits = false
			}
		}
		if fits && (is64 || signMode != 2) {
			g, cnt := x.Sum(found, foundNil)
			if g.Cmp(sum) != 0 || cnt != uint64(len(found)) {
				fail("Sum(found=%s%v) = (%s,%d), want (%s,%d)", fclass, found, g, cnt, sum, len(found))
			}
		}
	}
	// --- Transpose family: non-negative values that fit the result's universe
	{
		lim := big.NewInt(1 << 32)
		if is64 {
			lim = new(big.Int).Lsh(big.NewInt(1), 63)
		}
		ok := true
		for _, c := range found {
			if m[c].Sign() < 0 || m[c].Cmp(lim) >= 0 {
				ok = false
			}
		}
		if ok {
			seen := map[uint64]int64{}
			for _, c := range found {
				seen[m[c].Uint64()]++
			}
			var want []uint64
			for v := range seen {
				want = append(want, v)
			}
			sort.Slice(want, func(i, j int) bool { return want[i] < want[j] })
			if g := x.Transpose(workers, found, foundNil); !sameCols(g, want) {
				fail("IntersectAndTranspose(workers=%d, found=%s%v) = %v, want %v", workers, fclass, found, g, want)
			}
			gc := x.TransposeCounts(workers, found, foundNil)
			if len(gc) != len(seen) {
				fail("TransposeWithCounts(found=%s%v) has %d values, want %d (%v vs %v)", fclass, found, len(gc), len(seen), gc, seen)
			}
			for v, cnt := range seen {
				if gc[v] != cnt {
					fail("TransposeWithCounts: value %d counted %d times, want %d", v, gc[v], cnt)
				}
			}
		}
	}
	// --- CompareBSI (64 only): column-wise comparison of two indexes
	if x64, ok := x.(idx64); ok && len(m) > 0 {
		o := newIndex(true, f).(idx64)
		om := map[uint64]*big.Int{}
		for _, c := range drawCols(t, "ocols", append(append([]uint64{}, cols...), u[0], u[len(u)-1]), 1) {
			v := rapid.SampledFrom(pool).Draw(t, "oval") + int64(rapid.IntRange(-1, 1).Draw(t, "ooff"))
			if !(f.max == 0 && f.min == 0) && (v < f.min || v > f.max) {
				v = f.max
			}
			o.SetValue(c, v)
			om[c] = big.NewInt(v)
		}
		for op := opLT; op <= opGT; op++ {
			got := x64.b.CompareBSI(roaring64.Operation(op), o.b, found64(found, foundNil)).ToArray()
			var want []uint64
			for _, c := range cols {
				if ov, ok := om[c]; ok && inFound[c] && holds(op, m[c], ov, nil) {
					want = append(want, c)
				}
			}
			if !sameCols(got, want) {
				fail("CompareBSI(%s, other=%s, found=%s%v) = %v, want %v", opName[op], descMap(om), fclass, found, got, want)
			}
		}
	}
	// --- results are independent of the index: mutate a returned bitmap, the index is unchanged
	var domain []int64 // the whole value domain when it is small: BatchEqual may then take a shortcut
	if bc := x.BitCount(); bc <= 4 {
		for v := int64(0); v < 1<<uint(bc); v++ {
			domain = append(domain, v)
		}
		if is64 {
			for v := int64(1); v <= 1<<uint(bc); v++ {
				domain = append(domain, -v)
			}
		}
	} else {
		domain = append(domain, pool...)
	}
	x.MutateResults(workers, domain)
	if d := checkIndex(x, m, u); d != "" {
		fail("mutating a bitmap returned by a query changed the index: %s", d)
	}
	if g := x.Existence(); !sameCols(g, cols) {
		fail("mutating a bitmap returned by a query changed the existence bitmap: %v want %v", g, cols)
	}
	distinct := map[string]bool{}
	vs := []*big.Int{}
	for _, v := range m {
		distinct[v.String()] = true
		vs = append(vs, v)
	}
	inst.Count("C20", x.Name()+":found="+fclass)
	nontrivial := (len(m) >= 3 && len(distinct) >= 2 && !foundNil && len(found) < len(cols)) || mixedSigns(vs...)
	inst.Case("C20", nontrivial, fmt.Sprintf("%s found=%s%v workers=%d", desc, fclass, found, workers))
}

func TestC20x64(t *testing.T) { rapid.Check(t, func(t *rapid.T) { propC20(t, true) }) }
func TestC20x32(t *testing.T) { rapid.Check(t, func(t *rapid.T) { propC20(t, false) }) }
