package pbsi

import (
	"bytes"
	"fmt"
	"math/big"
	"os"
	"sort"
	"testing"

	"github.com/RoaringBitmap/roaring/v2"
	bsi32 "github.com/RoaringBitmap/roaring/v2/BitSliceIndexing"
	"github.com/RoaringBitmap/roaring/v2/roaring64"
	"pgregory.net/rapid"

	"verifharness/inst"
)

func TestMain(m *testing.M) { inst.Main(m) }

func thorough() bool { return os.Getenv("VERIF_TIER") == "thorough" }

// index is the common face of the two BSI implementations (cols/found-sets as []uint64).
type index interface {
	Name() string
	Is64() bool
	SetValue(col uint64, v int64)
	SetBig(col uint64, v *big.Int) // 64 only
	SetMany(cols []uint64, v int64)
	Get(col uint64) (*big.Int, bool) // through GetBigValue (64) / GetValue (32)
	GetInt(col uint64) (int64, bool) // GetValue; caller guarantees the value fits int64
	Exists(col uint64) bool
	Card() uint64
	Clear(cols []uint64)
	ClearRange(lo, hi uint64) // ClearValues with a found-set built by AddRange (a run container), columns lo..hi inclusive
	Retain(cols []uint64) (uint64, bool) // 64 only
	ParOr(workers int, others ...index)
	Increment(cols []uint64) // nil = IncrementAll
	AddIndex(o index)
	Clone() index
	RetainSet(cols []uint64) index
	MarshalRoundTrip() (index, error)
	StreamRoundTrip() (index, error, bool) // WriteTo/ReadFrom (64 only)
	EqualsIdx(o index) (bool, bool)        // Equals (64 only)
	BitCount() int
	RunOptimize()
	// queries
	Compare(workers int, op int, a, b int64, found []uint64, foundNil bool) []uint64
	MinMax(workers int, max bool, found []uint64, foundNil bool) *big.Int
	Sum(found []uint64, foundNil bool) (*big.Int, uint64)
	BatchEqual(workers int, vals []int64) []uint64
	Transpose(workers int, found []uint64, foundNil bool) []uint64
	TransposeCounts(workers int, found []uint64, foundNil bool) map[uint64]int64
	Existence() []uint64
	MutateResults(workers int, vals []int64) // mutate every bitmap a query returns (independence)
}

// ---------------- 64-bit ----------------

type idx64 struct{ b *roaring64.BSI }

func bm64(cols []uint64) *roaring64.Bitmap { return roaring64.BitmapOf(cols...) }

func (x idx64) Name() string                        { return "roaring64.BSI" }
func (x idx64) Is64() bool                          { return true }
func (x idx64) SetValue(c uint64, v int64)          { x.b.SetValue(c, v) }
func (x idx64) SetBig(c uint64, v *big.Int)         { x.b.SetBigValue(c, v) }
func (x idx64) SetMany(cols []uint64, v int64)      { x.b.SetMany(bm64(cols), v) }
func (x idx64) Get(c uint64) (*big.Int, bool)       { return x.b.GetBigValue(c) }
func (x idx64) GetInt(c uint64) (int64, bool)       { return x.b.GetValue(c) }
func (x idx64) Exists(c uint64) bool                { return x.b.ValueExists(c) }
func (x idx64) Card() uint64                        { return x.b.GetCardinality() }
func (x idx64) Clear(cols []uint64)                 { x.b.ClearValues(bm64(cols)) }
func (x idx64) ClearRange(lo, hi uint64) {
	f := roaring64.New()
	f.AddRange(lo, hi+1)
	f.RunOptimize()
	x.b.ClearValues(f)
}
func (x idx64) Retain(cols []uint64) (uint64, bool) { return x.b.Retain(bm64(cols)), true }
func (x idx64) ParOr(w int, others ...index) {
	os := make([]*roaring64.BSI, len(others))
	for i, o := range others {
		os[i] = o.(idx64).b
	}
	x.b.ParOr(w, os...)
}
func (x idx64) Increment(cols []uint64) {
	if cols == nil {
		x.b.IncrementAll()
	} else {
		x.b.Increment(bm64(cols))
	}
}
func (x idx64) AddIndex(o index)              { x.b.Add(o.(idx64).b) }
func (x idx64) Clone() index                  { return idx64{x.b.Clone()} }
func (x idx64) RetainSet(cols []uint64) index { return idx64{x.b.NewBSIRetainSet(bm64(cols))} }
func (x idx64) MarshalRoundTrip() (index, error) {
	data, err := x.b.MarshalBinary()
	if err != nil {
		return nil, err
	}
	n := receiver64()
	if err := n.UnmarshalBinary(data); err != nil {
		return nil, err
	}
	return idx64{n}, nil
}
func (x idx64) StreamRoundTrip() (index, error, bool) {
	var buf bytes.Buffer
	wn, err := x.b.WriteTo(&buf)
	if err != nil {
		return nil, err, true
	}
	if int(wn) != buf.Len() {
		return nil, fmt.Errorf("WriteTo returned %d, wrote %d bytes", wn, buf.Len()), true
	}
	n := receiver64()
	rn, err := n.ReadFrom(bytes.NewReader(buf.Bytes()))
	if err != nil {
		return nil, err, true
	}
	if int(rn) != buf.Len() {
		return nil, fmt.Errorf("ReadFrom returned %d, stream has %d bytes", rn, buf.Len()), true
	}
	return idx64{n}, nil, true
}
func (x idx64) EqualsIdx(o index) (bool, bool) { return x.b.Equals(o.(idx64).b), true }
func (x idx64) BitCount() int                  { return x.b.BitCount() }
func (x idx64) RunOptimize()                   { x.b.RunOptimize() }
func found64(found []uint64, isNil bool) *roaring64.Bitmap {
	if isNil {
		return nil
	}
	return bm64(found)
}
func (x idx64) Compare(w, op int, a, b int64, found []uint64, isNil bool) []uint64 {
	return x.b.CompareValue(w, roaring64.Operation(op), a, b, found64(found, isNil)).ToArray()
}
func (x idx64) MinMax(w int, max bool, found []uint64, isNil bool) *big.Int {
	op := roaring64.MIN
	if max {
		op = roaring64.MAX
	}
	return x.b.MinMaxBig(w, op, found64(found, isNil))
}
func (x idx64) Sum(found []uint64, isNil bool) (*big.Int, uint64) {
	return x.b.SumBigValues(found64(found, isNil))
}
func (x idx64) BatchEqual(w int, vals []int64) []uint64 { return x.b.BatchEqual(w, vals).ToArray() }
func (x idx64) Transpose(w int, found []uint64, isNil bool) []uint64 {
	if isNil && w == 0 {
		return x.b.Transpose().ToArray() // documented as IntersectAndTranspose(0, existence)
	}
	return x.b.IntersectAndTranspose(w, found64(found, isNil)).ToArray()
}
func (x idx64) TransposeCounts(w int, found []uint64, isNil bool) map[uint64]int64 {
	// filterSet selects which VALUES are counted; its nil default (the existence bitmap, i.e.
	// column ids) is not asserted here: pass every stored non-negative value explicitly
	filter := roaring64.New()
	for _, c := range x.b.GetExistenceBitmap().ToArray() {
		if v, ok := x.b.GetBigValue(c); ok && v.Sign() >= 0 && v.IsUint64() {
			filter.Add(v.Uint64())
		}
	}
	r := x.b.TransposeWithCounts(w, found64(found, isNil), filter)
	out := map[uint64]int64{}
	for _, c := range r.GetExistenceBitmap().ToArray() {
		v, _ := r.GetValue(c)
		out[c] = v
	}
	return out
}
func (x idx64) Existence() []uint64 { return x.b.GetExistenceBitmap().ToArray() }
func (x idx64) MutateResults(w int, vals []int64) {
	scribble := func(r *roaring64.Bitmap) {
		if r == nil {
			return
		}
		r.Add(123456789)
		r.RemoveRange(0, 1<<40)
		r.AddRange(1<<41, 1<<41+10)
	}
	scribble(x.b.CompareValue(w, roaring64.GE, -1<<62, 0, nil))
	scribble(x.b.CompareValue(w, roaring64.LE, 1<<62, 0, x.b.GetExistenceBitmap().Clone()))
	scribble(x.b.BatchEqual(w, vals))
	bigs := make([]*big.Int, len(vals))
	for i, v := range vals {
		bigs[i] = big.NewInt(v)
	}
	scribble(x.b.BatchEqualBig(w, bigs))
	scribble(x.b.IntersectAndTranspose(w, nil))
}

// ---------------- 32-bit ----------------

type idx32 struct{ b *bsi32.BSI }

func bm32(cols []uint64) *roaring.Bitmap {
	b := roaring.New()
	for _, c := range cols {
		b.Add(uint32(c))
	}
	return b
}
func arr64(b *roaring.Bitmap) []uint64 {
	a := b.ToArray()
	out := make([]uint64, len(a))
	for i, v := range a {
		out[i] = uint64(v)
	}
	return out
}

func (x idx32) Name() string                   { return "BitSliceIndexing.BSI" }
func (x idx32) Is64() bool                     { return false }
func (x idx32) SetValue(c uint64, v int64)     { x.b.SetValue(c, v) }
func (x idx32) SetBig(c uint64, v *big.Int)    { x.b.SetValue(c, v.Int64()) }
func (x idx32) SetMany(cols []uint64, v int64) { x.b.SetMany(bm32(cols), v) }
func (x idx32) Get(c uint64) (*big.Int, bool) {
	v, ok := x.b.GetValue(c)
	if !ok {
		return nil, false
	}
	return big.NewInt(v), true
}
func (x idx32) GetInt(c uint64) (int64, bool)       { return x.b.GetValue(c) }
func (x idx32) Exists(c uint64) bool                { return x.b.ValueExists(c) }
func (x idx32) Card() uint64                        { return x.b.GetCardinality() }
func (x idx32) Clear(cols []uint64)                 { x.b.ClearValues(bm32(cols)) }
func (x idx32) ClearRange(lo, hi uint64) {
	f := roaring.New()
	f.AddRange(lo, hi+1)
	f.RunOptimize()
	x.b.ClearValues(f)
}
func (x idx32) Retain(cols []uint64) (uint64, bool) { return 0, false }
func (x idx32) ParOr(w int, others ...index) {
	os := make([]*bsi32.BSI, len(others))
	for i, o := range others {
		os[i] = o.(idx32).b
	}
	x.b.ParOr(w, os...)
}
func (x idx32) Increment(cols []uint64) {
	if cols == nil {
		x.b.IncrementAll()
	} else {
		x.b.Increment(bm32(cols))
	}
}
func (x idx32) AddIndex(o index)              { x.b.Add(o.(idx32).b) }
func (x idx32) Clone() index                  { return idx32{x.b.Clone()} }
func (x idx32) RetainSet(cols []uint64) index { return idx32{x.b.NewBSIRetainSet(bm32(cols))} }
func (x idx32) MarshalRoundTrip() (index, error) {
	data, err := x.b.MarshalBinary()
	if err != nil {
		return nil, err
	}
	n := bsi32.NewDefaultBSI()
	switch usedReceiver {
	case 1:
		n.SetValue(3, 1<<50)
		n.SetValue(70000, 12345)
	case 2:
		n.SetValue(9, 1)
	}
	if err := n.UnmarshalBinary(data); err != nil {
		return nil, err
	}
	return idx32{n}, nil
}
func (x idx32) StreamRoundTrip() (index, error, bool) { return nil, nil, false }
func (x idx32) EqualsIdx(o index) (bool, bool)        { return false, false }
func (x idx32) BitCount() int                         { return x.b.BitCount() }
func (x idx32) RunOptimize()                          { x.b.RunOptimize() }
func found32(found []uint64, isNil bool) *roaring.Bitmap {
	if isNil {
		return nil
	}
	return bm32(found)
}
func (x idx32) Compare(w, op int, a, b int64, found []uint64, isNil bool) []uint64 {
	return arr64(x.b.CompareValue(w, bsi32.Operation(op), a, b, found32(found, isNil)))
}
func (x idx32) MinMax(w int, max bool, found []uint64, isNil bool) *big.Int {
	op := bsi32.MIN
	if max {
		op = bsi32.MAX
	}
	return big.NewInt(x.b.MinMax(w, op, found32(found, isNil)))
}
func (x idx32) Sum(found []uint64, isNil bool) (*big.Int, uint64) {
	s, c := x.b.Sum(found32(found, isNil))
	return big.NewInt(s), c
}
func (x idx32) BatchEqual(w int, vals []int64) []uint64 { return arr64(x.b.BatchEqual(w, vals)) }
func (x idx32) Transpose(w int, found []uint64, isNil bool) []uint64 {
	if isNil && w == 0 {
		return arr64(x.b.Transpose())
	}
	return arr64(x.b.IntersectAndTranspose(w, found32(found, isNil)))
}
func (x idx32) TransposeCounts(w int, found []uint64, isNil bool) map[uint64]int64 {
	r := x.b.TransposeWithCounts(w, found32(found, isNil))
	out := map[uint64]int64{}
	for _, c := range r.GetExistenceBitmap().ToArray() {
		v, _ := r.GetValue(uint64(c))
		out[uint64(c)] = v
	}
	return out
}
func (x idx32) Existence() []uint64 { return arr64(x.b.GetExistenceBitmap()) }
func (x idx32) MutateResults(w int, vals []int64) {
	scribble := func(r *roaring.Bitmap) {
		if r == nil {
			return
		}
		r.Add(123456789)
		r.RemoveRange(0, 1<<32)
		r.AddRange(77, 99)
	}
	scribble(x.b.CompareValue(w, bsi32.GE, 0, 0, nil))
	scribble(x.b.CompareValue(w, bsi32.LE, 1<<62, 0, x.b.GetExistenceBitmap().Clone()))
	scribble(x.b.BatchEqual(w, vals))
	scribble(x.b.IntersectAndTranspose(w, nil))
}

// ---------------- generators ----------------

var cols32 = []uint64{0, 1, 2, 3, 65535, 65536, 65537, 70000, 131072, 1 << 31, 1<<32 - 2, 1<<32 - 1}
var cols64extra = []uint64{1 << 32, 1<<32 + 1, 1<<32 + 65536, 2 << 32, 2<<32 + 9, 3<<32 + 1, 5 << 32, 5<<32 + 70000, 7 << 32, 1 << 40, 1<<40 + 1, 1<<63 + 5, 1<<64 - 1}

// usedReceiver selects what the decoding round trips read into: 0 a fresh index, 1 an index that holds
// wide (and negative) values on other columns, 2 an index that holds one small value. Set by the property.
var usedReceiver int

func receiver64() *roaring64.BSI {
	n := roaring64.NewDefaultBSI()
	switch usedReceiver {
	case 1:
		n.SetValue(3, -(1 << 50))
		n.SetValue(1<<40+7, 12345)
	case 2:
		n.SetValue(9, 1)
	}
	return n
}

func universe(is64 bool) []uint64 {
	if is64 {
		return append(append([]uint64(nil), cols32...), cols64extra...)
	}
	return cols32
}

func drawCols(t *rapid.T, label string, u []uint64, min int) []uint64 {
	n := rapid.IntRange(min, 5).Draw(t, label+".n")
	seen := map[uint64]bool{}
	var out []uint64
	for i := 0; i < n; i++ {
		c := rapid.SampledFrom(u).Draw(t, label)
		if !seen[c] {
			seen[c] = true
			out = append(out, c)
		}
	}
	sort.Slice(out, func(i, j int) bool { return out[i] < out[j] })
	if out == nil {
		out = []uint64{} // empty, not nil: nil means "no found-set given"
	}
	return out
}

func sortedKeys(m map[uint64]*big.Int) []uint64 {
	out := make([]uint64, 0, len(m))
	for k := range m {
		out = append(out, k)
	}
	sort.Slice(out, func(i, j int) bool { return out[i] < out[j] })
	return out
}

func descMap(m map[uint64]*big.Int) string {
	s := "{"
	for _, k := range sortedKeys(m) {
		s += fmt.Sprintf("%d:%s ", k, m[k])
	}
	return s + "}"
}
