package pbsi

import (
	"fmt"
	"math/big"
	"sort"
	"testing"

	"github.com/RoaringBitmap/roaring/v2/roaring64"
	"pgregory.net/rapid"

	"verifharness/inst"
)

// Indexes wider than 64 planes (values set through SetBigValue): CompareBigValue over the whole width, including
// the two ends of the representable range (-2^BitCount and 2^BitCount-1), MinMaxBig and SumBigValues.
func propC20Wide(t *rapid.T) {
	x := roaring64.NewDefaultBSI()
	m := map[uint64]*big.Int{}
	shift := uint(rapid.SampledFrom([]int{64, 65, 70, 100}).Draw(t, "shift"))
	n := rapid.IntRange(1, 8).Draw(t, "ncols")
	for i := 0; i < n; i++ {
		c := rapid.SampledFrom(universe(true)).Draw(t, "col")
		var v *big.Int
		switch rapid.IntRange(0, 4).Draw(t, "class") {
		case 0:
			v = big.NewInt(0)
		case 1:
			v = big.NewInt(rapid.Int64Range(-5, 5).Draw(t, "small"))
		case 2:
			v = new(big.Int).Lsh(big.NewInt(rapid.Int64Range(-3, 3).Draw(t, "mant")), shift-2)
		default:
			v = new(big.Int).Add(new(big.Int).Lsh(big.NewInt(rapid.Int64Range(-1, 1).Draw(t, "top")), shift-1), big.NewInt(rapid.Int64Range(-2, 2).Draw(t, "plus")))
		}
		x.SetBigValue(c, v)
		m[c] = v
	}
	if rapid.Bool().Draw(t, "runopt") {
		x.RunOptimize()
	}
	bc := x.BitCount()
	lo := new(big.Int).Neg(new(big.Int).Lsh(big.NewInt(1), uint(bc)))
	hi := new(big.Int).Sub(new(big.Int).Lsh(big.NewInt(1), uint(bc)), big.NewInt(1))
	cols := make([]uint64, 0, len(m))
	for c := range m {
		cols = append(cols, c)
	}
	sort.Slice(cols, func(i, j int) bool { return cols[i] < cols[j] })
	desc := fmt.Sprintf("BSI64 with %d planes: %s", bc, descMap(m))
	cands := []*big.Int{lo, hi, big.NewInt(0), big.NewInt(-1), big.NewInt(1)}
	for _, v := range m {
		cands = append(cands, v, new(big.Int).Add(v, big.NewInt(1)), new(big.Int).Sub(v, big.NewInt(1)))
	}
	inRange := func(v *big.Int) *big.Int {
		if v.Cmp(lo) < 0 {
			return lo
		}
		if v.Cmp(hi) > 0 {
			return hi
		}
		return v
	}
	workers := rapid.SampledFrom([]int{0, 1, 2, 5}).Draw(t, "workers")
	for q := 0; q < 8; q++ {
		op := rapid.IntRange(opLT, opRANGE).Draw(t, "op")
		a := inRange(rapid.SampledFrom(cands).Draw(t, "a"))
		b := inRange(rapid.SampledFrom(cands).Draw(t, "b"))
		if op == opRANGE && a.Cmp(b) > 0 {
			a, b = b, a
		}
		var found *roaring64.Bitmap
		fdesc := "nil"
		inFound := map[uint64]bool{}
		for _, c := range cols {
			inFound[c] = true
		}
		if rapid.Bool().Draw(t, "subset") {
			found = roaring64.New()
			inFound = map[uint64]bool{}
			for i, c := range cols {
				if i%2 == 0 {
					found.Add(c)
					inFound[c] = true
				}
			}
			fdesc = "every other column"
		}
		got := x.CompareBigValue(workers, roaring64.Operation(op), a, b, found).ToArray()
		var want []uint64
		for _, c := range cols {
			if inFound[c] && holds(op, m[c], a, b) {
				want = append(want, c)
			}
		}
		if !sameCols(got, want) {
			t.Fatalf("CompareBigValue(workers=%d, %s, %s, %s, found=%s) = %v, want %v\n  %s", workers, opName[op], a, b, fdesc, got, want, desc)
		}
	}
	mn, mx, sum := new(big.Int).Set(m[cols[0]]), new(big.Int).Set(m[cols[0]]), new(big.Int)
	for _, c := range cols {
		if m[c].Cmp(mn) < 0 {
			mn = m[c]
		}
		if m[c].Cmp(mx) > 0 {
			mx = m[c]
		}
		sum.Add(sum, m[c])
	}
	if g := x.MinMaxBig(workers, roaring64.MIN, nil); g.Cmp(mn) != 0 {
		t.Fatalf("MinMaxBig(MIN) = %s want %s\n  %s", g, mn, desc)
	}
	if g := x.MinMaxBig(workers, roaring64.MAX, nil); g.Cmp(mx) != 0 {
		t.Fatalf("MinMaxBig(MAX) = %s want %s\n  %s", g, mx, desc)
	}
	if g, cnt := x.SumBigValues(nil); g.Cmp(sum) != 0 || cnt != uint64(len(cols)) {
		t.Fatalf("SumBigValues = (%s,%d) want (%s,%d)\n  %s", g, cnt, sum, len(cols), desc)
	}
	inst.Count("C20", "roaring64.BSI:wider-than-64-planes")
	inst.Case("C20", len(cols) >= 2 && bc > 64, "wide "+desc)
}

func TestC20Wide64(t *testing.T) { rapid.Check(t, propC20Wide) }
