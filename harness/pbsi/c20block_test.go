package pbsi

import (
	"fmt"
	"math/big"
	"testing"

	"pgregory.net/rapid"

	"verifharness/inst"
)

// Dense column blocks: whole 65536-column chunks (all columns present, the existence and plane bitmaps
// run-optimized) holding piecewise-constant values. Full chunks are where the containers' own shortcuts
// ("the other side is full: hand back the operand") come into play inside the query pipelines.
// The expected answers are computed per piece, not per column.

type piece struct {
	lo, hi uint64 // columns lo..hi inclusive
	v      int64
}

func colRange(lo, hi uint64) []uint64 {
	out := make([]uint64, 0, hi-lo+1)
	for c := lo; c <= hi; c++ {
		out = append(out, c)
	}
	return out
}

func propC20Block(t *rapid.T, is64 bool) {
	if rapid.IntRange(0, 39).Draw(t, "sample") != 23 {
		return // these cases are two orders of magnitude heavier than the small-map ones: about 1 in 40 (rapid favours small values, so the test is against a mid-range value)
	}
	f := flavours[0] // auto-sized
	x := newIndex(is64, f)
	nonNeg := !is64 || rapid.Bool().Draw(t, "nonneg")
	key := uint64(rapid.SampledFrom([]int{0, 4, 5}).Draw(t, "blockkey"))
	if is64 && rapid.IntRange(0, 3).Draw(t, "highbucket") == 0 {
		key += 3 << 16 // bucket 3
	}
	base := key << 16
	// 1..3 pieces covering the whole chunk, plus optionally a tail in the next chunk
	npieces := rapid.IntRange(1, 3).Draw(t, "npieces")
	cuts := []uint64{0}
	for i := 1; i < npieces; i++ {
		cuts = append(cuts, uint64(rapid.SampledFrom([]int{1, 64, 4096, 4097, 30000, 65535}).Draw(t, "cut")))
	}
	cuts = append(cuts, 65536)
	for i := 1; i < len(cuts); i++ { // make increasing
		if cuts[i] <= cuts[i-1] {
			cuts[i] = cuts[i-1] + 1
		}
	}
	if cuts[len(cuts)-2] >= 65536 {
		cuts = []uint64{0, 65536}
	}
	cuts[len(cuts)-1] = 65536
	var ps []piece
	for i := 0; i+1 < len(cuts); i++ {
		v := drawValue(t, "pv", f, nonNeg)
		if v > 1<<40 || v < -(1<<40) {
			v >>= 22
		}
		ps = append(ps, piece{base + cuts[i], base + cuts[i+1] - 1, v})
	}
	if rapid.Bool().Draw(t, "tail") {
		v := drawValue(t, "tv", f, nonNeg)
		if v > 1<<40 || v < -(1<<40) {
			v >>= 22
		}
		ps = append(ps, piece{base + 65536, base + 65536 + uint64(rapid.IntRange(0, 5000).Draw(t, "taillen")), v})
	}
	for _, p := range ps {
		x.SetMany(colRange(p.lo, p.hi), p.v)
	}
	if rapid.IntRange(0, 3).Draw(t, "runopt") != 0 {
		x.RunOptimize()
	}
	desc := fmt.Sprintf("%s pieces=%v", x.Name(), ps)
	fail := func(s string, a ...interface{}) { t.Fatalf("%s\n  %s", fmt.Sprintf(s, a...), desc) }
	total := uint64(0)
	sum := new(big.Int)
	for _, p := range ps {
		n := p.hi - p.lo + 1
		total += n
		sum.Add(sum, new(big.Int).Mul(big.NewInt(p.v), new(big.Int).SetUint64(n)))
	}
	intact := func(after string) {
		if g := x.Card(); g != total {
			fail("%s: GetCardinality=%d want %d", after, g, total)
		}
		for _, p := range ps {
			for _, c := range []uint64{p.lo, p.hi, (p.lo + p.hi) / 2, p.lo + (p.hi-p.lo)/3} {
				if g, ok := x.GetInt(c); !ok || g != p.v {
					fail("%s: column %d reads (%d,%v); stored value is %d", after, c, g, ok, p.v)
				}
			}
		}
		if g, cnt := x.Sum(nil, true); g.Cmp(sum) != 0 || cnt != total {
			fail("%s: Sum = (%s,%d), want (%s,%d)", after, g, cnt, sum, total)
		}
	}
	intact("after loading")
	workers := rapid.SampledFrom([]int{0, 1, 3}).Draw(t, "workers")
	for q := 0; q < 4; q++ {
		op := rapid.IntRange(opLT, opRANGE).Draw(t, "op")
		var cand []int64
		for _, p := range ps {
			cand = append(cand, p.v, p.v+1, p.v-1)
		}
		a := rapid.SampledFrom(cand).Draw(t, "a")
		b := rapid.SampledFrom(cand).Draw(t, "b")
		if nonNeg {
			if a < 0 {
				a = 0
			}
			if b < 0 {
				b = 0
			}
		}
		if bc := x.BitCount(); bc < 63 { // constants inside what the current planes represent
			hi := int64(1)<<uint(bc) - 1
			lo := -hi - 1
			if !is64 {
				lo = 0
			}
			if a > hi {
				a = hi
			}
			if b > hi {
				b = hi
			}
			if a < lo {
				a = lo
			}
			if b < lo {
				b = lo
			}
		}
		if op == opRANGE && a > b {
			a, b = b, a
		}
		// found-set: nil, everything, or one sub-range of the block
		var found []uint64
		foundNil := true
		flo, fhi := uint64(0), ^uint64(0)
		fdesc := "nil"
		switch rapid.IntRange(0, 2).Draw(t, "found") {
		case 1:
			foundNil = false
			for _, p := range ps {
				found = append(found, colRange(p.lo, p.hi)...)
			}
			fdesc = "all"
		case 2:
			foundNil = false
			flo = base + uint64(rapid.SampledFrom([]int{0, 1, 63, 4096, 30000}).Draw(t, "flo"))
			fhi = flo + uint64(rapid.SampledFrom([]int{0, 1, 64, 5000, 40000}).Draw(t, "flen"))
			if fhi > ps[len(ps)-1].hi {
				fhi = ps[len(ps)-1].hi
			}
			if flo > fhi {
				flo = fhi
			}
			found = colRange(flo, fhi)
			fdesc = fmt.Sprintf("[%d,%d]", flo, fhi)
		}
		got := x.Compare(workers, op, a, b, found, foundNil)
		var want []uint64
		for _, p := range ps {
			if !holds(op, big.NewInt(p.v), big.NewInt(a), big.NewInt(b)) {
				continue
			}
			lo, hi := p.lo, p.hi
			if lo < flo {
				lo = flo
			}
			if hi > fhi {
				hi = fhi
			}
			if lo <= hi {
				want = append(want, colRange(lo, hi)...)
			}
		}
		if !sameCols(got, want) {
			fail("CompareValue(workers=%d, %s, %d, %d, found=%s) returned %d columns, want %d (first got %v, first want %v)", workers, opName[op], a, b, fdesc, len(got), len(want), headCols(got), headCols(want))
		}
		intact(fmt.Sprintf("after CompareValue(%s,%d,%d,found=%s)", opName[op], a, b, fdesc))
	}
	// MinMax and BatchEqual on the block, then once more: still intact
	mn, mx := ps[0].v, ps[0].v
	for _, p := range ps {
		if p.v < mn {
			mn = p.v
		}
		if p.v > mx {
			mx = p.v
		}
	}
	if g := x.MinMax(workers, false, nil, true); g.Cmp(big.NewInt(mn)) != 0 {
		fail("MinMax(MIN) = %s want %d", g, mn)
	}
	if g := x.MinMax(workers, true, nil, true); g.Cmp(big.NewInt(mx)) != 0 {
		fail("MinMax(MAX) = %s want %d", g, mx)
	}
	be := x.BatchEqual(workers, []int64{ps[0].v})
	var wantBE []uint64
	for _, p := range ps {
		if p.v == ps[0].v {
			wantBE = append(wantBE, colRange(p.lo, p.hi)...)
		}
	}
	if !sameCols(be, wantBE) {
		fail("BatchEqual([%d]) returned %d columns, want %d", ps[0].v, len(be), len(wantBE))
	}
	x.MutateResults(workers, []int64{ps[0].v, ps[len(ps)-1].v})
	intact("after mutating the bitmaps the queries returned")
	inst.Count("C20", x.Name()+":dense-block")
	inst.Case("C20", len(ps) >= 2, "dense block "+desc)
}

func headCols(c []uint64) []uint64 {
	if len(c) > 4 {
		return c[:4]
	}
	return c
}

func TestC20Block64(t *testing.T) { rapid.Check(t, func(t *rapid.T) { propC20Block(t, true) }) }
func TestC20Block32(t *testing.T) { rapid.Check(t, func(t *rapid.T) { propC20Block(t, false) }) }
