package p64

import (
	"encoding/binary"
	"testing"

	"github.com/RoaringBitmap/roaring/v2/roaring64"

	"verifharness/inst"
	"verifharness/model"
)

func modelRange(lo, hi uint64) *model.Set {
	m := model.New()
	m.AddRange(lo, hi)
	return m
}

func TestRegressC17(t *testing.T) {
	f := roaring64.Flip(roaring64.New(), 8589934593, 17179869187)
	g := roaring64.New()
	g.Flip(8589934593, 17179869187)
	if !f.Equals(g) {
		t.Fatalf("static Flip differs from in-place Flip")
	}
	if d := check64(f, modelRange(8589934593, 17179869186)); d != "" { // via the independent 64-bit decoder (keys must ascend)
		t.Fatalf("static Flip result: %s", d)
	}
	if p, _ := inst.Try(func() { roaring64.Flip(roaring64.BitmapOf(1<<32-1), 1<<32-1, 1<<32+5) }); p != nil {
		t.Fatalf("static Flip panicked: %v", p)
	}
	a := roaring64.BitmapOf(1, 1<<32+1, 2<<32+1)
	if p, _ := inst.Try(func() { a.Xor(a) }); p != nil || !a.IsEmpty() {
		t.Fatalf("a.Xor(a): panic=%v empty=%v", p, a.IsEmpty())
	}
}

func TestRegressC07x64(t *testing.T) {
	a, e, b := roaring64.BitmapOf(1), roaring64.New(), roaring64.BitmapOf(1<<32+1)
	list := []*roaring64.Bitmap{a, e, b}
	roaring64.ParOr(2, list...)
	if list[0] != a || list[1] != e || list[2] != b {
		t.Fatalf("roaring64.ParOr rewrote the caller's slice")
	}
	if roaring64.ParOr(2, e, a) == a {
		t.Fatalf("roaring64.ParOr returned its only non-empty input")
	}
	x, y := roaring64.BitmapOf(5), roaring64.BitmapOf(3<<32+7)
	x.Xor(y)
	x.Add(3<<32 + 8)
	if y.Contains(3<<32 + 8) {
		t.Fatalf("a.Xor(b) shares b's bucket")
	}
}

func TestRegressC18Counts(t *testing.T) {
	for _, c := range []uint64{1 << 62, 1<<64 - 1} {
		d := make([]byte, 24)
		binary.LittleEndian.PutUint64(d, c)
		for entry := 0; entry < 4; entry++ {
			if p, _ := inst.Try(func() { decode64(entry, d) }); p != nil {
				t.Fatalf("%s with bucket count %d panicked: %v", e64[entry], c, p)
			}
		}
	}
}

func TestRegressC17ParOrTopOfKeySpace(t *testing.T) {
	a, b := roaring64.New(), roaring64.New()
	for k := uint64(0xFFFFFFEF); k <= 0xFFFFFFFF; k++ {
		a.Add(k<<32 + 1)
		b.Add(k<<32 + 2)
	}
	for _, w := range []int{1, 2, 3, 4, 7} {
		if r := roaring64.ParOr(w, a, b); r.GetCardinality() != 34 || !r.Equals(roaring64.Or(a, b)) {
			t.Fatalf("roaring64.ParOr(%d) over the top 17 buckets has %d values, want 34", w, r.GetCardinality())
		}
	}
}
