package p64

import (
	"fmt"
	"sort"
	"strings"
	"testing"

	"github.com/RoaringBitmap/roaring/v2/roaring64"
	"pgregory.net/rapid"

	"verifharness/inst"
	"verifharness/model"
)

type m64 struct {
	b  *roaring64.Bitmap
	m  *model.Set
	id int
}

var op64 = []string{"And", "Or", "Xor", "AndNot"}

func mop(op int, a, b *model.Set) *model.Set {
	switch op {
	case 0:
		return model.And(a, b)
	case 1:
		return model.Or(a, b)
	case 2:
		return model.Xor(a, b)
	}
	return model.AndNot(a, b)
}

func sop(op int, a, b *roaring64.Bitmap) *roaring64.Bitmap {
	switch op {
	case 0:
		return roaring64.And(a, b)
	case 1:
		return roaring64.Or(a, b)
	case 2:
		return roaring64.Xor(a, b)
	}
	return roaring64.AndNot(a, b)
}

func iop(op int, a, b *roaring64.Bitmap) {
	switch op {
	case 0:
		a.And(b)
	case 1:
		a.Or(b)
	case 2:
		a.Xor(b)
	default:
		a.AndNot(b)
	}
}

func bucketsOf(m *model.Set) map[uint64]bool {
	out := map[uint64]bool{}
	for _, iv := range m.Intervals() {
		for k := iv.Lo >> 32; ; k++ {
			out[k] = true
			if k == iv.Hi>>32 || len(out) > 64 {
				break
			}
		}
	}
	return out
}

// pool64 is the 64-bit state machine. structural=true adds the C07 checks
// (no function returns an input, caller's slice unchanged, no bucket shared unflagged).
func pool64(t *rapid.T, prop string, structural bool) {
	var ms []*m64
	var ops []string
	nextID := 0
	log := func(f string, a ...interface{}) { ops = append(ops, fmt.Sprintf(f, a...)) }
	hist := func() string { return strings.Join(ops, "; ") }
	fail := func(f string, a ...interface{}) { t.Fatalf("%s\n  history: %s", fmt.Sprintf(f, a...), hist()) }
	add := func(b *roaring64.Bitmap, m *model.Set) *m64 {
		x := &m64{b, m, nextID}
		nextID++
		if len(ms) >= 5 {
			ms = append(ms[1:], x)
		} else {
			ms = append(ms, x)
		}
		return x
	}
	pick := func(t *rapid.T, l string) *m64 { return ms[rapid.IntRange(0, len(ms)-1).Draw(t, l)] }
	multiBucketOps := 0
	sawMultiBucket := false
	noteRange := func(s, e uint64) {
		if e > s && (e-1)>>32 != s>>32 {
			multiBucketOps++
		}
	}
	derivedMut := false
	derived := map[[2]int]bool{}

	for i := 0; i < 2; i++ {
		m := set64(t, fmt.Sprintf("init%d", i))
		x := add(build64(t, fmt.Sprintf("init%d", i), m), m)
		log("#%d=build(%s)", x.id, m)
	}
	stepNo := 0
	lastChecked := map[int]string{} // member id -> model summary at its last full check
	checkAll := func() {
		stepNo++
		for _, x := range ms {
			// huge members (whole buckets) are compared in full when they changed, and
			// every 8th step; otherwise only their cardinality is compared
			if x.m.Card() > 200000 && stepNo%8 != 0 && lastChecked[x.id] == x.m.String() {
				if c := x.b.GetCardinality(); c != x.m.Card() {
					fail("64-bit bitmap #%d: GetCardinality=%d, model has %d", x.id, c, x.m.Card())
				}
				continue
			}
			lastChecked[x.id] = x.m.String()
			if d := check64(x.b, x.m); d != "" {
				fail("64-bit bitmap #%d != model: %s", x.id, d)
			}
			if len(bucketsOf(x.m)) >= 2 {
				sawMultiBucket = true
			}
		}
		if structural {
			type own struct {
				id     int
				shared bool
			}
			seen := map[interface{}]own{}
			for _, x := range ms {
				for _, bk := range x.b.VerifBuckets() {
					if o, ok := seen[bk.Bitmap]; ok && o.id != x.id {
						if !o.shared || !bk.Shared {
							fail("bucket %d: bitmaps #%d (flagged=%v) and #%d (flagged=%v) hold the SAME inner 32-bit bitmap object without both copy-on-write flags: a change through one changes the other", bk.Key, o.id, o.shared, x.id, bk.Shared)
						}
					}
					seen[bk.Bitmap] = own{x.id, bk.Shared}
				}
			}
		}
	}
	checkAll()

	agg := func(name string, f func(...*roaring64.Bitmap) *roaring64.Bitmap, kind string, min int) func(*rapid.T) {
		return func(t *rapid.T) {
			n := rapid.IntRange(min, 4).Draw(t, "n")
			list := make([]*m64, n)
			args := make([]*roaring64.Bitmap, n)
			acc := model.New()
			var names []string
			for i := range list {
				list[i] = pick(t, "arg")
				args[i] = list[i].b
				names = append(names, fmt.Sprintf("#%d", list[i].id))
				switch {
				case kind == "or":
					acc = model.Or(acc, list[i].m)
				case i == 0:
					acc = list[i].m.Clone()
				default:
					acc = model.And(acc, list[i].m)
				}
			}
			keep := append([]*roaring64.Bitmap(nil), args...)
			res := f(args...)
			log("%s(%s)", name, strings.Join(names, ","))
			for i := range keep {
				if structural && args[i] != keep[i] {
					fail("%s rewrote the caller's argument slice at %d", name, i)
				}
			}
			for _, x := range list {
				if res == x.b {
					if structural {
						fail("%s returned its input #%d itself instead of a new bitmap", name, x.id)
					}
					res = res.Clone()
				}
			}
			z := add(res, acc)
			for _, x := range list {
				derived[[2]int{z.id, x.id}] = true
			}
			ops[len(ops)-1] = fmt.Sprintf("#%d=%s", z.id, ops[len(ops)-1])
		}
	}

	t.Repeat(map[string]func(*rapid.T){
		"Add": func(t *rapid.T) {
			x := pick(t, "x")
			v := value64(t, "v", x.m)
			switch rapid.IntRange(0, 2).Draw(t, "form") {
			case 0:
				log("#%d.Add(%d)", x.id, v)
				x.b.Add(v)
				x.m.Add(v)
			case 1:
				log("#%d.CheckedAdd(%d)", x.id, v)
				if g, w := x.b.CheckedAdd(v), x.m.Add(v); g != w {
					fail("CheckedAdd(%d)=%v, membership changed=%v", v, g, w)
				}
			default:
				if v > 1<<62 {
					v >>= 2
				}
				log("#%d.AddInt(%d)", x.id, v)
				x.b.AddInt(int(v))
				x.m.Add(v)
			}
			for _, o := range ms {
				if o != x && (derived[[2]int{x.id, o.id}] || derived[[2]int{o.id, x.id}]) && bucketsOf(o.m)[v>>32] {
					derivedMut = true
				}
			}
		},
		"Remove": func(t *rapid.T) {
			x := pick(t, "x")
			v := value64(t, "v", x.m)
			if rapid.Bool().Draw(t, "checked") {
				log("#%d.CheckedRemove(%d)", x.id, v)
				if g, w := x.b.CheckedRemove(v), x.m.Remove(v); g != w {
					fail("CheckedRemove(%d)=%v, membership changed=%v", v, g, w)
				}
			} else {
				log("#%d.Remove(%d)", x.id, v)
				x.b.Remove(v)
				x.m.Remove(v)
			}
			for _, o := range ms {
				if o != x && (derived[[2]int{x.id, o.id}] || derived[[2]int{o.id, x.id}]) && bucketsOf(o.m)[v>>32] {
					derivedMut = true
				}
			}
		},
		"AddMany": func(t *rapid.T) {
			x := pick(t, "x")
			n := rapid.IntRange(0, 12).Draw(t, "n")
			vals := make([]uint64, 0, n)
			for i := 0; i < n; i++ {
				v := value64(t, "v", x.m)
				vals = append(vals, v)
				if rapid.IntRange(0, 3).Draw(t, "burst") == 0 {
					for j := uint64(1); j < 300 && v+j > v; j++ {
						vals = append(vals, v+j)
					}
				}
			}
			log("#%d.AddMany(%d values)", x.id, len(vals))
			x.b.AddMany(vals)
			x.m = model.Or(x.m, model.FromValues(vals))
		},
		"AddRange": func(t *rapid.T) {
			x := pick(t, "x")
			s, e := range64(t, "r", x.m)
			log("#%d.AddRange(%d,%d)", x.id, s, e)
			x.b.AddRange(s, e)
			if e > s {
				x.m.AddRange(s, e-1)
			}
			noteRange(s, e)
		},
		"RemoveRange": func(t *rapid.T) {
			x := pick(t, "x")
			s, e := range64(t, "r", x.m)
			log("#%d.RemoveRange(%d,%d)", x.id, s, e)
			x.b.RemoveRange(s, e)
			if e > s {
				x.m.RemoveRange(s, e-1)
			}
			noteRange(s, e)
		},
		"Flip": func(t *rapid.T) {
			x := pick(t, "x")
			s, e := range64(t, "r", x.m)
			log("#%d.Flip(%d,%d)", x.id, s, e)
			x.b.Flip(s, e)
			if e > s {
				x.m.FlipRange(s, e-1)
			}
			noteRange(s, e)
		},
		"staticFlip": func(t *rapid.T) {
			x := pick(t, "x")
			s, e := range64(t, "r", x.m)
			m := x.m.Clone()
			if e > s {
				m.FlipRange(s, e-1)
			}
			log("Flip(#%d,%d,%d)", x.id, s, e)
			res := roaring64.Flip(x.b, s, e)
			z := add(res, m)
			derived[[2]int{z.id, x.id}] = true
			ops[len(ops)-1] = fmt.Sprintf("#%d=%s", z.id, ops[len(ops)-1])
			noteRange(s, e)
		},
		"static": func(t *rapid.T) {
			x, y := pick(t, "x"), pick(t, "y")
			op := rapid.IntRange(0, 3).Draw(t, "op")
			log("%s(#%d,#%d)", op64[op], x.id, y.id)
			z := add(sop(op, x.b, y.b), mop(op, x.m, y.m))
			derived[[2]int{z.id, x.id}], derived[[2]int{z.id, y.id}] = true, true
			ops[len(ops)-1] = fmt.Sprintf("#%d=%s", z.id, ops[len(ops)-1])
			if len(bucketsOf(x.m)) >= 2 && len(bucketsOf(y.m)) >= 2 {
				multiBucketOps++
			}
		},
		"inplace": func(t *rapid.T) {
			x, y := pick(t, "x"), pick(t, "y")
			op := rapid.IntRange(0, 3).Draw(t, "op")
			log("#%d.%s(#%d)", x.id, op64[op], y.id)
			nm := mop(op, x.m, y.m)
			iop(op, x.b, y.b)
			x.m = nm
			derived[[2]int{x.id, y.id}] = true
		},
		"shortcuts": func(t *rapid.T) {
			x, y := pick(t, "x"), pick(t, "y")
			and := model.And(x.m, y.m)
			if g := x.b.AndCardinality(y.b); g != and.Card() {
				fail("#%d.AndCardinality(#%d)=%d want %d", x.id, y.id, g, and.Card())
			}
			if g, w := x.b.OrCardinality(y.b), model.Or(x.m, y.m).Card(); g != w {
				fail("#%d.OrCardinality(#%d)=%d want %d", x.id, y.id, g, w)
			}
			if g := x.b.Intersects(y.b); g != !and.IsEmpty() {
				fail("#%d.Intersects(#%d)=%v want %v", x.id, y.id, g, !and.IsEmpty())
			}
			if g, w := x.b.Equals(y.b), x.m.Equal(y.m); g != w {
				fail("#%d.Equals(#%d)=%v want %v", x.id, y.id, g, w)
			}
		},
		"FastOr":  agg("FastOr", roaring64.FastOr, "or", 0),
		"FastAnd": agg("FastAnd", roaring64.FastAnd, "and", 1),
		"ParOr": func(t *rapid.T) {
			w := rapid.SampledFrom([]int{0, 1, 2, 3, 7}).Draw(t, "workers")
			agg(fmt.Sprintf("ParOr[%d]", w), func(bs ...*roaring64.Bitmap) *roaring64.Bitmap { return roaring64.ParOr(w, bs...) }, "or", 0)(t)
		},
		"Clone": func(t *rapid.T) {
			x := pick(t, "x")
			z := add(x.b.Clone(), x.m.Clone())
			derived[[2]int{z.id, x.id}] = true
			log("#%d=Clone(#%d)", z.id, x.id)
		},
		"cowClone": func(t *rapid.T) {
			x := pick(t, "x")
			x.b.SetCopyOnWrite(true)
			z := add(x.b.Clone(), x.m.Clone())
			derived[[2]int{z.id, x.id}] = true
			log("#%d.SetCopyOnWrite(true); #%d=Clone(#%d)", x.id, z.id, x.id)
		},
		"dropBuckets": func(t *rapid.T) {
			// a range removal that deletes whole leading buckets and ends inside / at the edge of a later one
			x := pick(t, "x")
			bk := bucketsOf(x.m)
			if len(bk) < 2 {
				t.Skip("needs two buckets")
			}
			var keys []uint64
			for k := range bk {
				keys = append(keys, k)
			}
			sortU64(keys)
			i := rapid.IntRange(0, len(keys)-2).Draw(t, "from")
			j := rapid.IntRange(i+1, len(keys)-1).Draw(t, "to")
			s := keys[i] << 32
			if rapid.Bool().Draw(t, "fromZero") {
				s = 0
			}
			e := keys[j]<<32 + uint64(rapid.SampledFrom([]int{0, 1, 65536}).Draw(t, "into"))
			log("#%d.RemoveRange(%d,%d)", x.id, s, e)
			x.b.RemoveRange(s, e)
			if e > s {
				x.m.RemoveRange(s, e-1)
			}
			noteRange(s, e)
		},
		"andNotOwnPrefix": func(t *rapid.T) {
			// in-place difference with a copy of x's own first k buckets (+ optionally a value beyond x's
			// last bucket): whole leading buckets are emptied and dropped, the surviving ones move down
			x := pick(t, "x")
			bk := bucketsOf(x.m)
			if len(bk) < 2 || x.m.Card() > 400000 {
				t.Skip("needs two (small) buckets")
			}
			var keys []uint64
			for k := range bk {
				keys = append(keys, k)
			}
			sortU64(keys)
			k := rapid.IntRange(1, len(keys)-1).Draw(t, "k")
			ym := x.m.Window(0, keys[k]<<32-1)
			if rapid.Bool().Draw(t, "beyond") && keys[len(keys)-1] < 0xFFFFFFFF {
				ym.Add((keys[len(keys)-1]+1)<<32 + 3)
			}
			y := build64(t, "prefix", ym)
			log("#%d.AndNot(first %d buckets of itself)", x.id, k)
			x.b.AndNot(y)
			x.m = model.AndNot(x.m, ym)
		},
		"SetCopyOnWrite": func(t *rapid.T) {
			x := pick(t, "x")
			v := rapid.Bool().Draw(t, "on")
			log("#%d.SetCopyOnWrite(%v)", x.id, v)
			x.b.SetCopyOnWrite(v)
		},
		"RunOptimize": func(t *rapid.T) {
			x := pick(t, "x")
			log("#%d.RunOptimize()", x.id)
			x.b.RunOptimize()
		},
		"CloneCopyOnWriteContainers": func(t *rapid.T) {
			x := pick(t, "x")
			log("#%d.CloneCopyOnWriteContainers()", x.id)
			x.b.CloneCopyOnWriteContainers()
		},
		"new": func(t *rapid.T) {
			m := set64(t, "new")
			z := add(build64(t, "new", m), m)
			log("#%d=build(%s)", z.id, m)
		},
		"newDenseBuckets": func(t *rapid.T) {
			// a block of consecutive buckets at the bottom, in the middle or at the very top of the
			// key space (ParOr splits the bucket range into chunks per worker)
			n := rapid.IntRange(2, 24).Draw(t, "nbuckets")
			var k0 uint64
			switch rapid.IntRange(0, 2).Draw(t, "place") {
			case 1:
				k0 = 1 << 31
			case 2:
				k0 = 1<<32 - uint64(n)
			}
			m := model.New()
			for i := 0; i < n; i++ {
				if rapid.IntRange(0, 3).Draw(t, "skip") == 0 {
					continue
				}
				lo := rapid.SampledFrom(lows32).Draw(t, "low")
				m.AddRange((k0+uint64(i))<<32+lo, (k0+uint64(i))<<32+min64(lo+uint64(rapid.IntRange(0, 3).Draw(t, "len")), model.Max32))
			}
			z := add(build64(t, "dense", m), m)
			log("#%d=build(%s)", z.id, m)
		},
		"queries": func(t *rapid.T) {
			x := pick(t, "x")
			queries64(t, x, fail)
		},
		"": func(t *rapid.T) { checkAll() },
	})
	checkAll()
	inst.CountN(prop, "steps", len(ops))
	if structural {
		inst.Case(prop, derivedMut, hist())
	} else {
		inst.Case(prop, sawMultiBucket && multiBucketOps > 0, hist())
	}
}

func queries64(t *rapid.T, x *m64, fail func(string, ...interface{})) {
	b, m := x.b, x.m
	n := m.Card()
	if n > 0 {
		if g := b.Minimum(); g != m.Min() {
			fail("#%d.Minimum=%d want %d", x.id, g, m.Min())
		}
		if g := b.Maximum(); g != m.Max() {
			fail("#%d.Maximum=%d want %d", x.id, g, m.Max())
		}
	}
	for i := 0; i < 6; i++ {
		v := value64(t, "q", m)
		if g, w := b.Contains(v), m.Contains(v); g != w {
			fail("#%d.Contains(%d)=%v want %v", x.id, v, g, w)
		}
		if g, w := b.Rank(v), m.Rank(v); g != w {
			fail("#%d.Rank(%d)=%d want %d", x.id, v, g, w)
		}
	}
	// Equals against the same low-32 contents under other bucket keys, and against near misses
	if n > 0 && n <= 300000 {
		for _, d := range []uint64{1, 2} {
			if m.Max()>>32+d > 0xFFFFFFFF {
				continue
			}
			sh := roaring64.New()
			for _, iv := range m.Intervals() {
				lo, hi := iv.Lo+d<<32, iv.Hi+d<<32
				if hi == model.Max64 {
					sh.AddRange(lo, hi)
					sh.Add(hi)
				} else {
					sh.AddRange(lo, hi+1)
				}
			}
			if sh.GetCardinality() != n {
				fail("harness: shifted copy has %d values, want %d", sh.GetCardinality(), n)
			}
			if b.Equals(sh) || sh.Equals(b) {
				fail("#%d.Equals(the same bitmap shifted by %d buckets) = true", x.id, d)
			}
		}
		cp := b.Clone()
		if !b.Equals(cp) || !cp.Equals(b) {
			fail("#%d.Equals(Clone) = false", x.id)
		}
		v := value64(t, "eqv", m)
		if cp.CheckedAdd(v) || cp.CheckedRemove(v) {
			if b.Equals(cp) || cp.Equals(b) {
				fail("#%d.Equals(clone with %d toggled) = true", x.id, v)
			}
		}
	}
	sel := []uint64{0, n, n + 1}
	if n > 0 {
		sel = append(sel, n-1, rapid.Uint64Range(0, n-1).Draw(t, "seli"))
	}
	for _, i := range sel {
		g, err := b.Select(i)
		w, ok := m.Select(i)
		if ok != (err == nil) || (ok && g != w) {
			fail("#%d.Select(%d)=(%d,%v) want (%d, ok=%v)", x.id, i, g, err, w, ok)
		}
	}
	// iterator with a Peek/Advance program
	it := b.Iterator()
	pos := uint64(0)
	prog := ""
	for s := 0; s < rapid.IntRange(1, 25).Draw(t, "itsteps"); s++ {
		switch rapid.IntRange(0, 3).Draw(t, "itact") {
		case 0:
			prog += "H "
			if it.HasNext() != (pos < n) {
				fail("#%d Iterator.HasNext=%v after %d of %d [%s]", x.id, it.HasNext(), pos, n, prog)
			}
		case 1:
			if pos < n {
				prog += "N "
				w, _ := m.Select(pos)
				if !it.HasNext() {
					fail("#%d Iterator.HasNext=false after %d of %d [%s]", x.id, pos, n, prog)
				}
				if g := it.Next(); g != w {
					fail("#%d Iterator.Next=%d want %d [%s]", x.id, g, w, prog)
				}
				pos++
			}
		case 2:
			if pos < n {
				prog += "P "
				w, _ := m.Select(pos)
				if !it.HasNext() {
					fail("#%d Iterator.HasNext=false after %d of %d [%s]", x.id, pos, n, prog)
				}
				if g := it.PeekNext(); g != w {
					fail("#%d Iterator.PeekNext=%d want %d [%s]", x.id, g, w, prog)
				}
			}
		default:
			mv := value64(t, "adv", m)
			prog += fmt.Sprintf("A(%d) ", mv)
			it.AdvanceIfNeeded(mv)
			np := uint64(0)
			if mv > 0 {
				np = m.Rank(mv - 1)
			}
			if np > pos {
				pos = np
			}
		}
	}
	for k := 0; k < 3000 && pos < n; k++ {
		w, _ := m.Select(pos)
		if !it.HasNext() {
			fail("#%d Iterator ends after %d of %d [%s]", x.id, pos, n, prog)
		}
		if g := it.Next(); g != w {
			fail("#%d Iterator.Next=%d want %d (drain) [%s]", x.id, g, w, prog)
		}
		pos++
	}
	if pos == n && it.HasNext() {
		fail("#%d Iterator.HasNext=true after all %d values [%s]", x.id, n, prog)
	}
	// reverse / many / Values / Backward prefixes
	take := uint64(rapid.IntRange(0, 2000).Draw(t, "take"))
	rit := b.ReverseIterator()
	for i := uint64(0); i < take && i < n; i++ {
		w, _ := m.Select(n - 1 - i)
		if !rit.HasNext() {
			fail("#%d ReverseIterator ends after %d of %d", x.id, i, n)
		}
		if g := rit.Next(); g != w {
			fail("#%d ReverseIterator.Next=%d want %d", x.id, g, w)
		}
	}
	if take >= n && rit.HasNext() {
		fail("#%d ReverseIterator.HasNext=true after all values", x.id)
	}
	mit := b.ManyIterator()
	mpos := uint64(0)
	for c := 0; c < rapid.IntRange(1, 5).Draw(t, "manycalls"); c++ {
		l := rapid.SampledFrom([]int{0, 1, 2, 63, 64, 65, 4096, 4097, 65536, 70000}).Draw(t, "manylen")
		buf := make([]uint64, l)
		k := mit.NextMany(buf)
		want := uint64(l)
		if n-mpos < want {
			want = n - mpos
		}
		if uint64(k) != want {
			fail("#%d ManyIterator.NextMany(len %d) returned %d want %d (consumed %d of %d)", x.id, l, k, want, mpos, n)
		}
		for i := uint64(0); i < want; i++ {
			w, _ := m.Select(mpos + i)
			if buf[i] != w {
				fail("#%d ManyIterator value %d = %d want %d", x.id, mpos+i, buf[i], w)
			}
			if i > 300 && i < want-300 {
				i += 97 // sample the middle of big buffers
			}
		}
		mpos += want
	}
	// reusable iterator objects: Initialize on another bitmap in the middle of a traversal starts afresh
	{
		other := roaring64.BitmapOf(3, 1<<32+7, 1<<40)
		other.AddRange(5<<32-100, 5<<32+200)
		var it roaring64.IntIterator64
		it.Initialize(other)
		for i := uint64(0); i < take%7 && it.HasNext(); i++ {
			it.PeekNext()
			it.Next()
		}
		if it.HasNext() {
			it.PeekNext()
		}
		it.Initialize(b)
		for i := uint64(0); i < n && i < 2000; i++ {
			w, _ := m.Select(i)
			if !it.HasNext() {
				fail("#%d re-initialized IntIterator64 ends after %d of %d values", x.id, i, n)
			}
			if g := it.PeekNext(); g != w {
				fail("#%d re-initialized IntIterator64: PeekNext at position %d = %d want %d", x.id, i, g, w)
			}
			if g := it.Next(); g != w {
				fail("#%d re-initialized IntIterator64: value %d = %d want %d", x.id, i, g, w)
			}
		}
		if n > 0 {
			var it2 roaring64.IntIterator64
			it2.Initialize(other)
			it2.PeekNext()
			it2.Initialize(b)
			mid, _ := m.Select(n / 2)
			it2.AdvanceIfNeeded(mid)
			if !it2.HasNext() || it2.PeekNext() != mid {
				fail("#%d re-initialized IntIterator64: AdvanceIfNeeded(%d) does not land on %d", x.id, mid, mid)
			}
		}
		var rit roaring64.IntReverseIterator64
		rit.Initialize(other)
		if rit.HasNext() {
			rit.Next()
		}
		rit.Initialize(b)
		for i := uint64(0); i < n && i < 2000; i++ {
			w, _ := m.Select(n - 1 - i)
			if !rit.HasNext() {
				fail("#%d re-initialized IntReverseIterator64 ends after %d of %d values", x.id, i, n)
			}
			if g := rit.Next(); g != w {
				fail("#%d re-initialized IntReverseIterator64: value %d = %d want %d", x.id, i, g, w)
			}
		}
		var mit roaring64.ManyIntIterator64
		mit.Initialize(other)
		mit.NextMany(make([]uint64, 3))
		mit.Initialize(b)
		got := uint64(0)
		big := make([]uint64, 211)
		for got < n && got < 2000 {
			c := mit.NextMany(big)
			if c == 0 {
				fail("#%d re-initialized ManyIntIterator64 ends after %d of %d values", x.id, got, n)
			}
			for j := 0; j < c; j++ {
				if w, _ := m.Select(got + uint64(j)); big[j] != w {
					fail("#%d re-initialized ManyIntIterator64: value %d = %d want %d", x.id, got+uint64(j), big[j], w)
				}
			}
			got += uint64(c)
		}
	}
	// a sequence value may be ranged over more than once (each time from the start), also after an early break
	vseq, bseq := roaring64.Values(b), roaring64.Backward(b)
	for pass := 0; pass < 2; pass++ {
		i := uint64(0)
		for v := range vseq {
			if i >= take {
				break
			}
			if w, _ := m.Select(i); v != w {
				fail("#%d Values (traversal %d of the same sequence) item %d = %d want %d", x.id, pass+1, i, v, w)
			}
			i++
		}
		if i != min64(take, n) {
			fail("#%d Values (traversal %d of the same sequence) yielded %d items want %d", x.id, pass+1, i, min64(take, n))
		}
		i = 0
		for v := range bseq {
			if i >= take {
				break
			}
			if w, _ := m.Select(n - 1 - i); v != w {
				fail("#%d Backward (traversal %d of the same sequence) item %d = %d want %d", x.id, pass+1, i, v, w)
			}
			i++
		}
		if i != min64(take, n) {
			fail("#%d Backward (traversal %d of the same sequence) yielded %d items want %d", x.id, pass+1, i, min64(take, n))
		}
		take = take/2 + 1
	}
}

func TestC17(t *testing.T)    { rapid.Check(t, func(t *rapid.T) { pool64(t, "C17", false) }) }
func TestC07x64(t *testing.T) { rapid.Check(t, func(t *rapid.T) { pool64(t, "C07", true) }) }

func sortU64(a []uint64) {
	sort.Slice(a, func(i, j int) bool { return a[i] < a[j] })
}
