package p64

import (
	"bytes"
	"encoding/base64"
	"encoding/binary"
	"encoding/hex"
	"fmt"
	"io"
	"os"
	"os/exec"
	"strings"
	"syscall"
	"testing"
	"time"

	"github.com/RoaringBitmap/roaring/v2/roaring64"
	"pgregory.net/rapid"

	"verifharness/inst"
	"verifharness/model"
	"verifharness/spec"
)

var e64 = []string{"ReadFrom", "FromUnsafeBytes", "UnmarshalBinary", "FromBase64"}

type countingReader struct {
	r           *bytes.Reader
	pos         int
	pieces      []int // piece sizes, cycled (nil: 7)
	i           int
	eofWithData bool // deliver the last piece together with io.EOF, as io.Reader allows
}

func (c *countingReader) Read(p []byte) (int, error) {
	// deliver in small pieces
	max := 7
	if len(c.pieces) > 0 {
		max = c.pieces[c.i%len(c.pieces)]
		c.i++
	}
	if len(p) > max {
		p = p[:max]
	}
	n, err := c.r.Read(p)
	c.pos += n
	if c.eofWithData && err == nil && c.r.Len() == 0 {
		err = io.EOF
	}
	return n, err
}

// readerShape is set by the property before each ReadFrom (drawn piece sizes).
var readerShape struct {
	pieces      []int
	eofWithData bool
}

func decode64(entry int, data []byte) (b *roaring64.Bitmap, n int64, consumed int, err error) {
	return decode64Into(roaring64.New(), entry, data)
}

func decode64Into(recv *roaring64.Bitmap, entry int, data []byte) (b *roaring64.Bitmap, n int64, consumed int, err error) {
	b = recv
	switch entry {
	case 0:
		cr := &countingReader{r: bytes.NewReader(data), pieces: readerShape.pieces, eofWithData: readerShape.eofWithData}
		n, err = b.ReadFrom(cr)
		consumed = cr.pos
	case 1:
		n, err = b.FromUnsafeBytes(data)
		consumed = int(n)
	case 2:
		err = b.UnmarshalBinary(data)
		n, consumed = -1, -1
	default:
		n, err = b.FromBase64(base64.StdEncoding.EncodeToString(data))
		consumed = int(n)
	}
	return
}

// TestC18Child decodes one input under a 4 GiB address-space limit; it is only
// run as a child process of the C18 property (a count field taken from
// untrusted bytes must not be able to take the caller's process down).
func TestC18Child(t *testing.T) {
	in := os.Getenv("VERIF_C18_INPUT")
	if in == "" {
		t.Skip("child mode only")
	}
	lim := syscall.Rlimit{Cur: 4 << 30, Max: 4 << 30}
	syscall.Setrlimit(syscall.RLIMIT_AS, &lim)
	data, _ := hex.DecodeString(in)
	var entry int
	fmt.Sscanf(os.Getenv("VERIF_C18_ENTRY"), "%d", &entry)
	p, st := inst.Try(func() { decode64(entry, data) })
	if p != nil {
		fmt.Printf("CHILD-PANIC: %v [%s]\n", p, st)
		os.Exit(3)
	}
	os.Exit(0)
}

// inChild runs a decode in a child process; returns "" if it returned normally.
func inChild(entry int, data []byte) string {
	cmd := exec.Command(os.Args[0], "-test.run=^TestC18Child$")
	cmd.Env = append(os.Environ(), "VERIF_C18_INPUT="+hex.EncodeToString(data), fmt.Sprintf("VERIF_C18_ENTRY=%d", entry), "VERIF_STATS=")
	var out bytes.Buffer
	cmd.Stdout, cmd.Stderr = &out, &out
	done := make(chan error, 1)
	if err := cmd.Start(); err != nil {
		return "" // cannot spawn: inconclusive, not a verdict
	}
	go func() { done <- cmd.Wait() }()
	select {
	case err := <-done:
		if err == nil {
			return ""
		}
		o := out.String()
		if len(o) > 600 {
			o = o[:600]
		}
		return fmt.Sprintf("decoder did not return normally (%v): %s", err, strings.ReplaceAll(o, "\n", " | "))
	case <-time.After(180 * time.Second):
		cmd.Process.Kill()
		return "decoder still running after 180 s on a tiny input (hang)"
	}
}

func propC18(t *rapid.T) {
	m := set64(t, "S")
	b := build64(t, "S", m)
	// a little history so that representations are not only the freshly built ones
	for i := 0; i < rapid.IntRange(0, 4).Draw(t, "nops"); i++ {
		s, e := range64(t, "r", m)
		switch rapid.IntRange(0, 5).Draw(t, "op") {
		case 5:
			b.RunOptimize()
		case 4:
			// cut a chunk back to exactly 4095/4096/4097 values by one range removal
			if m.IsEmpty() {
				continue
			}
			v := value64(t, "land.chunk", m)
			if !m.Contains(v) {
				v = m.Min()
			}
			base := v &^ 0xFFFF
			w := m.Window(base, base|0xFFFF)
			target := uint64(rapid.SampledFrom([]int{4095, 4096, 4097}).Draw(t, "land.target"))
			if w.Card() <= target {
				// grow it first: every other value
				for x := base; x < base+12000 && x <= base|0xFFFF; x += 2 {
					b.Add(x)
					m.Add(x)
				}
				w = m.Window(base, base|0xFFFF)
			}
			if w.Card() > target {
				if rapid.Bool().Draw(t, "land.tail") && base|0xFFFF != model.Max64 { // (no exclusive end exists for the very last chunk)
					x, _ := w.Select(target)
					b.RemoveRange(x, base+65536)
					m.RemoveRange(x, base|0xFFFF)
				} else {
					x, _ := w.Select(w.Card() - target)
					b.RemoveRange(base, x)
					m.RemoveRange(base, x-1)
				}
				inst.Count("C18", "history:range-removal-landing-on-threshold")
			}
		case 3:
			// union with a partner that brings one chunk to 4095/4096/4097 values (array/bitmap threshold)
			if m.IsEmpty() {
				continue
			}
			pm := thresholdPartner64(t, m)
			pb := roaring64.New()
			if pm.Card() <= 6000 {
				pb.AddMany(pm.ToSlice())
			} else {
				for _, iv := range pm.Intervals() {
					pb.AddRange(iv.Lo, iv.Hi+1)
				}
			}
			switch rapid.IntRange(0, 3).Draw(t, "how") {
			case 0:
				b = roaring64.Or(b, pb)
			case 1:
				b.Or(pb)
			case 2:
				b = roaring64.FastOr(b, pb)
			default:
				b = roaring64.ParOr(2, pb, b)
			}
			m = model.Or(m, pm)
			inst.Count("C18", "history:threshold-union")
		case 0:
			b.AddRange(s, e)
			if e > s {
				m.AddRange(s, e-1)
			}
		case 1:
			b.RemoveRange(s, e)
			if e > s {
				m.RemoveRange(s, e-1)
			}
		default:
			b.Flip(s, e)
			if e > s {
				m.FlipRange(s, e-1)
			}
		}
	}
	desc := m.String()
	fail := func(f string, a ...interface{}) { t.Fatalf("%s\n  set=%s", fmt.Sprintf(f, a...), desc) }
	if err := b.Validate(); err != nil {
		fail("library-made 64-bit bitmap fails Validate: %v", err)
	}
	by, err := b.ToBytes()
	if err != nil {
		fail("ToBytes: %v", err)
	}
	var wb bytes.Buffer
	wn, err := b.WriteTo(&wb)
	if err != nil || int(wn) != len(by) || !bytes.Equal(wb.Bytes(), by) {
		fail("WriteTo=(%d,%v) disagrees with ToBytes (%d bytes)", wn, err, len(by))
	}
	// a writer that fails: WriteTo must report it (io.WriterTo), whatever the offset
	{
		offs := []int{0, 1, 7, 8, 11, 12, len(by) - 1, len(by) - 2, len(by) / 2}
		for i := 0; i < 6; i++ {
			offs = append(offs, rapid.IntRange(0, len(by)).Draw(t, "failAt"))
		}
		for _, k := range offs {
			if k < 0 || k >= len(by) {
				continue
			}
			fw := &failingWriter{budget: k, partial: rapid.Bool().Draw(t, "partial")}
			n, err := b.WriteTo(fw)
			if err == nil {
				fail("WriteTo to a writer that accepts only %d of %d bytes returned (%d, nil)", k, len(by), n)
			}
			inst.Count("C18", "failing-writer-offsets")
		}
	}
	if g := b.GetSerializedSizeInBytes(); g != uint64(len(by)) {
		fail("GetSerializedSizeInBytes=%d but %d bytes written", g, len(by))
	}
	if mb, err := b.MarshalBinary(); err != nil || !bytes.Equal(mb, by) {
		fail("MarshalBinary differs from ToBytes (err=%v)", err)
	}
	if s64, err := b.ToBase64(); err != nil {
		fail("ToBase64: %v", err)
	} else if dec, err := base64.StdEncoding.DecodeString(s64); err != nil || !bytes.Equal(dec, by) {
		fail("ToBase64 does not decode to ToBytes")
	}
	// independent reading of the 64-bit layout
	bks, used, err := spec.Decode64(by)
	if err != nil || used != len(by) {
		fail("library 64-bit bytes violate the format: %v (used %d of %d)", err, used, len(by))
	}
	if got := spec.Set64Of(bks); !got.Equal(m) {
		fail("independent decode gives another set: %s", model.Diff(m, got))
	}
	// the other direction: a conformant stream written by an independent encoder (with either cookie per bucket) is read as the same set
	if m.Card() <= 1<<21 && len(by) <= 1<<20 { // (the independent encoder writes full chunks as 8 KiB bit sets: keep whole-bucket sets out)
		enc := spec.Encode64(spec.Buckets64Of(m, nil), spec.EncOpts{ForceRunCookie: rapid.Bool().Draw(t, "foreign.runCookie")})
		for entry := 0; entry < 4; entry++ {
			rb, n, _, err := decode64(entry, enc)
			if err != nil {
				fail("%s rejected a conformant %d-byte stream written by an independent encoder: %v", e64[entry], len(enc), err)
			}
			if n >= 0 && int(n) != len(enc) {
				fail("%s of a conformant stream returned n=%d of %d", e64[entry], n, len(enc))
			}
			if d := check64(rb, m); d != "" {
				fail("%s read a conformant stream as another set: %s", e64[entry], d)
			}
		}
	}
	// ... and the smallest conformant buckets another writer can produce: k buckets of one value each under the
	// run-capable cookie (15 bytes per bucket, less than this library ever writes)
	{
		k := rapid.IntRange(1, 14).Draw(t, "foreign.tinyBuckets")
		tm := model.New()
		for i := 0; i < k; i++ {
			tm.Add(uint64(i*3+1)<<32 | uint64(i))
		}
		enc := spec.Encode64(spec.Buckets64Of(tm, nil), spec.EncOpts{ForceRunCookie: true})
		for entry := 0; entry < 4; entry++ {
			rb, _, _, err := decode64(entry, enc)
			if err != nil {
				fail("%s rejected a conformant %d-byte stream of %d one-value buckets (run-capable cookie): %v", e64[entry], len(enc), k, err)
			}
			if d := check64(rb, tm); d != "" {
				fail("%s read a conformant stream of %d one-value buckets as another set: %s", e64[entry], k, d)
			}
		}
	}
	// round trips with trailing garbage
	garbage := rapid.SampledFrom([]int{0, 0, 1, 5, 12, 40}).Draw(t, "garbage")
	stream := append(append([]byte(nil), by...), bytes.Repeat([]byte{0x3A, 0x30, 0, 0, 1, 0, 0, 0, 0xFF}, garbage)[:garbage]...)
	for entry := 0; entry < 4; entry++ {
		in := stream
		if entry >= 2 {
			in = by // no framing for these two
		}
		recv := roaring64.New()
		recvName := "fresh"
		switch rapid.IntRange(0, 2).Draw(t, "receiver") {
		case 1:
			recv, recvName = build64(t, "oldrecv", set64(t, "oldrecv")), "previously holding another bitmap"
		case 2:
			recv, recvName = b.Clone(), "previously holding the same bitmap"
			recv.Add(value64(t, "oldextra", m))
		}
		readerShape.pieces, readerShape.eofWithData = nil, false
		if entry == 0 {
			readerShape.pieces = rapid.SliceOfN(rapid.SampledFrom([]int{1, 2, 3, 4, 5, 7, 8, 13, 4096}), 1, 4).Draw(t, "pieces")
			readerShape.eofWithData = garbage == 0 && rapid.Bool().Draw(t, "eofWithData")
			inst.Count("C18", fmt.Sprintf("reader-pieces-min:%d", minInt(readerShape.pieces)))
		}
		rb, n, consumed, err := decode64Into(recv, entry, in)
		pieces := readerShape.pieces
		readerShape.pieces, readerShape.eofWithData = nil, false
		if err != nil && entry == 0 {
			fail("ReadFrom of the library's own bytes (+%d garbage) delivered in pieces of %v bytes: %v", garbage, pieces, err)
		}
		_ = recvName
		if err != nil {
			fail("%s of the library's own bytes (+%d garbage): %v", e64[entry], garbage, err)
		}
		if n >= 0 && int(n) != len(by) {
			fail("%s returned n=%d, the serialization has %d bytes", e64[entry], n, len(by))
		}
		if consumed >= 0 && consumed != len(by) {
			fail("%s consumed %d bytes, the serialization has %d", e64[entry], consumed, len(by))
		}
		if !rb.Equals(b) {
			fail("%s: round trip not Equals", e64[entry])
		}
		if d := check64(rb, m); d != "" {
			fail("%s: round trip contents: %s", e64[entry], d)
		}
		if err := rb.Validate(); err != nil {
			fail("%s into a receiver %s: round trip fails Validate: %v", e64[entry], recvName, err)
		}
		if entry == 3 {
			// a second, unrelated FromBase64 must not disturb the bitmap decoded first
			other := roaring64.BitmapOf(7, 8, 9, 1<<40)
			os64, _ := other.ToBase64()
			o2 := roaring64.New()
			if _, err := o2.FromBase64(os64); err != nil || !o2.Equals(other) {
				fail("FromBase64 of a small bitmap: err=%v", err)
			}
			if d := check64(rb, m); d != "" {
				fail("FromBase64: the bitmap decoded first changed when another bitmap was decoded from Base64 afterwards: %s", d)
			}
		}
		// the copying entry points must not keep the caller's bytes
		if entry == 0 || entry == 2 {
			scratch := append([]byte(nil), in...)
			rb2 := roaring64.New()
			if _, _, _, err := decode64Into(rb2, entry, scratch); err == nil {
				for i := range scratch {
					scratch[i] = 0x5A ^ byte(i)
				}
				if d := check64(rb2, m); d != "" {
					fail("%s: the decoded bitmap changed when the caller's input bytes were overwritten afterwards: %s", e64[entry], d)
				}
			}
		}
		// keeps working
		v := value64(t, "post", m)
		rb.Add(v)
		mm := m.Clone()
		mm.Add(v)
		if d := check64(rb, mm); d != "" {
			fail("%s: decoded bitmap misbehaves after Add(%d): %s", e64[entry], v, d)
		}
	}
	if !bytes.Equal(stream[:len(by)], by) {
		fail("decoding changed the caller's bytes")
	}

	// --- damaged input: error or bitmap, never panic / hang ---
	readerShape.pieces = rapid.SliceOfN(rapid.SampledFrom([]int{1, 2, 3, 5, 7, 4096}), 1, 3).Draw(t, "damaged.pieces")
	defer func() { readerShape.pieces = nil }()
	tryAll := func(what string, data []byte) {
		for entry := 0; entry < 4; entry++ {
			var rb *roaring64.Bitmap
			var err error
			p, st := inst.Try(func() { rb, _, _, err = decode64(entry, data) })
			if p != nil {
				fail("%s(%s, %d bytes) panicked: %v [%s] bytes(head)=%x", e64[entry], what, len(data), p, st, head64(data))
			}
			if err == nil && rb != nil {
				if p, st := inst.Try(func() { rb.Validate() }); p != nil {
					fail("Validate panicked after %s(%s): %v [%s]", e64[entry], what, p, st)
				}
			}
		}
	}
	var cuts []int
	if len(by) <= 1024 {
		for k := 0; k < len(by); k++ {
			cuts = append(cuts, k)
		}
	} else {
		for i := 0; i < 200; i++ {
			cuts = append(cuts, rapid.IntRange(0, len(by)-1).Draw(t, "cut"))
		}
		cuts = append(cuts, 0, 1, 7, 8, 9, 11, 12, 13, 15, 16, len(by)-1)
	}
	for _, k := range cuts {
		tryAll(fmt.Sprintf("prefix %d/%d", k, len(by)), by[:k])
	}
	inst.CountN("C18", "prefix-decodes", 4*len(cuts))
	nb := uint64(len(bks))
	mut := func(name string, f func(d []byte) []byte) {
		d := append([]byte(nil), by...)
		if r := f(d); r != nil {
			tryAll(name, r)
			inst.Count("C18", "mutant:"+name)
		}
	}
	for _, c := range []uint64{0, nb - 1, nb + 1, nb + 2, 1000} {
		c := c
		mut(fmt.Sprintf("count=%d(true %d)", c, nb), func(d []byte) []byte { binary.LittleEndian.PutUint64(d, c); return d })
	}
	if nb >= 2 {
		// bucket key table: keys live right after the count and after each inner stream
		_, l0 := spec.EncodePortable(bks[0].Chunks, spec.EncOpts{})
		k1 := 8 + 4 + l0.Total
		mut("keys:duplicate", func(d []byte) []byte { copy(d[k1:k1+4], d[8:12]); return d })
		mut("keys:descending", func(d []byte) []byte { binary.LittleEndian.PutUint32(d[k1:], 0); return d })
	}
	if nb >= 1 {
		mut("inner-cookie:zero", func(d []byte) []byte { d[12], d[13] = 0, 0; return d })
		mut("inner-cookie:swap", func(d []byte) []byte { d[12] ^= 1; return d })
		mut("inner-count:+1", func(d []byte) []byte { d[14]++; return d })
		mut("inner-count:big", func(d []byte) []byte { d[14], d[15] = 0xFF, 0xFF; return d })
		mut("inner-byte", func(d []byte) []byte {
			i := rapid.IntRange(12, len(d)-1).Draw(t, "ib")
			d[i] ^= byte(rapid.IntRange(1, 255).Draw(t, "ix"))
			return d
		})
	}
	// attacker-sized bucket counts: decoded in a child process under a 4 GiB address-space limit
	for _, c := range []uint64{1 << 31, 1 << 33, 1 << 62, 1<<64 - 1} {
		d := append([]byte(nil), by...)
		binary.LittleEndian.PutUint64(d, c)
		if len(d) > 64 {
			d = d[:64]
		}
		entry := rapid.IntRange(0, 3).Draw(t, "bigcount.entry")
		if msg := inChild(entry, d); msg != "" {
			fail("%s with bucket count %d in a %d-byte input: %s", e64[entry], c, len(d), msg)
		}
		inst.Count("C18", fmt.Sprintf("mutant:count=2^%d(child)", bitsLen(c)))
	}
	inst.Case("C18", nb >= 2 || len(cuts) > 8, desc)
}

type failingWriter struct {
	budget  int
	partial bool
}

func (w *failingWriter) Write(p []byte) (int, error) {
	if len(p) <= w.budget {
		w.budget -= len(p)
		return len(p), nil
	}
	n := 0
	if w.partial {
		n = w.budget
	}
	w.budget = 0
	return n, fmt.Errorf("injected writer failure")
}

// thresholdPartner64 draws a set inside one chunk of m such that the union of that chunk with it has
// 4095, 4096 or 4097 values (when the chunk is smaller), overlapping the chunk in a drawn number of values.
func thresholdPartner64(t *rapid.T, m *model.Set) *model.Set {
	v := value64(t, "thr.chunk", m)
	if !m.Contains(v) {
		v = m.Min()
	}
	base := v &^ 0xFFFF
	as := m.Window(base, base|0xFFFF)
	target := uint64(rapid.SampledFrom([]int{4095, 4096, 4097}).Draw(t, "thr.target"))
	out := model.New()
	comp := as.Complement(base, base|0xFFFF)
	if as.Card() < target {
		need := target - as.Card()
		if comp.Card() >= need {
			// spread: every step-th absent value
			step := comp.Card() / need
			if step > 1 && rapid.Bool().Draw(t, "thr.spread") {
				for i := uint64(0); i < need; i++ {
					x, _ := comp.Select(i * step)
					out.Add(x)
				}
			} else {
				x, _ := comp.Select(need - 1)
				out = comp.Window(base, x)
			}
		}
	} else {
		out.Add(as.Min())
	}
	// overlap with what is already there
	ov := uint64(rapid.IntRange(0, 3000).Draw(t, "thr.overlap"))
	if ov > as.Card() {
		ov = as.Card()
	}
	for i := uint64(0); i < ov; i++ {
		x, _ := as.Select(i * (as.Card() / ov))
		out.Add(x)
	}
	return out
}

func minInt(a []int) int {
	m := a[0]
	for _, v := range a {
		if v < m {
			m = v
		}
	}
	return m
}

func bitsLen(c uint64) int {
	n := 0
	for c > 1 {
		c >>= 1
		n++
	}
	return n
}

func head64(b []byte) []byte {
	if len(b) > 40 {
		return b[:40]
	}
	return b
}

func TestC18(t *testing.T) { rapid.Check(t, propC18) }
