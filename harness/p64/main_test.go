package p64

import (
	"fmt"
	"testing"

	"github.com/RoaringBitmap/roaring/v2/roaring64"
	"pgregory.net/rapid"

	"verifharness/gen"
	"verifharness/inst"
	"verifharness/model"
	"verifharness/spec"
)

func TestMain(m *testing.M) { inst.Main(m) }

var buckets = []uint64{0, 1, 2, 0x7FFFFFFF, 0xFFFFFFFE, 0xFFFFFFFF}
var lows32 = []uint64{0, 1, 2, 65535, 65536, 65537, 1 << 31, 1<<32 - 65537, 1<<32 - 65536, 1<<32 - 2, 1<<32 - 1}

// value64 draws a uint64 biased to elements of m, bucket edges and chunk edges.
func value64(t *rapid.T, label string, m *model.Set) uint64 {
	switch c := rapid.IntRange(0, 9).Draw(t, label+".class"); {
	case c <= 3 && !m.IsEmpty():
		ivs := m.Intervals()
		iv := ivs[rapid.IntRange(0, len(ivs)-1).Draw(t, label+".iv")]
		switch rapid.IntRange(0, 4).Draw(t, label+".at") {
		case 0:
			return iv.Lo
		case 1:
			return iv.Hi
		case 2:
			if iv.Lo > 0 {
				return iv.Lo - 1
			}
			return 0
		case 3:
			if iv.Hi < model.Max64 {
				return iv.Hi + 1
			}
			return iv.Hi
		default:
			return iv.Lo + (iv.Hi-iv.Lo)/2
		}
	case c <= 7:
		b := rapid.SampledFrom(buckets).Draw(t, label+".bucket")
		var lo uint64
		if rapid.Bool().Draw(t, label+".edge") {
			lo = rapid.SampledFrom(lows32).Draw(t, label+".low")
		} else {
			lo = uint64(rapid.Uint32().Draw(t, label+".lowrnd"))
		}
		return b<<32 | lo
	case c == 8:
		return rapid.SampledFrom([]uint64{0, 1, model.Max64 - 1, model.Max64, 1 << 32, 1<<32 - 1, 1 << 63}).Draw(t, label+".special")
	}
	return rapid.Uint64().Draw(t, label+".any")
}

// range64 draws [s,e) crossing zero, one or two bucket borders (bounded width) or, rarely, whole buckets.
func range64(t *rapid.T, label string, m *model.Set) (uint64, uint64) {
	s := value64(t, label+".s", m)
	var w uint64
	switch rapid.IntRange(0, 9).Draw(t, label+".wclass") {
	case 0:
		e := value64(t, label+".e", m) // anything, possibly e<s (no-op)
		if e > s && e-s > 2<<32 {
			e = s + 2<<32 + (e & 0xFFFF) // a range over millions of buckets would allocate one 32-bit bitmap per bucket
		}
		return s, e
	case 1: // up to and just over the next bucket border
		nb := (s>>32 + 1) << 32
		if nb == 0 || nb-s > 300000 {
			w = uint64(rapid.IntRange(0, 300000).Draw(t, label+".w"))
		} else {
			w = nb - s + uint64(rapid.IntRange(0, 70000).Draw(t, label+".over"))
		}
	case 2: // whole bucket(s)
		s = s &^ 0xFFFFFFFF
		w = uint64(rapid.IntRange(1, 2).Draw(t, label+".nb")) << 32
		if rapid.Bool().Draw(t, label+".ragged") {
			s += uint64(rapid.IntRange(0, 3).Draw(t, label+".rs"))
			w += uint64(rapid.IntRange(0, 3).Draw(t, label+".rw"))
		}
	default:
		w = uint64(rapid.SampledFrom([]int{0, 1, 2, 64, 4096, 65536, 70000, 300000}).Draw(t, label+".w"))
	}
	e := s + w
	if e < s {
		e = model.Max64
	}
	return s, e
}

// setOf64 extracts the contents of a 64-bit bitmap into the model.
func setOf64(b *roaring64.Bitmap) (*model.Set, error) {
	card := b.GetCardinality()
	if card <= 200000 {
		arr := b.ToArray()
		if uint64(len(arr)) != card {
			return nil, fmt.Errorf("ToArray has %d values, GetCardinality says %d", len(arr), card)
		}
		for i := 1; i < len(arr); i++ {
			if arr[i] <= arr[i-1] {
				return nil, fmt.Errorf("ToArray not strictly increasing at index %d: %d after %d", i, arr[i], arr[i-1])
			}
		}
		return model.FromValues(arr), nil
	}
	by, err := b.ToBytes()
	if err != nil {
		return nil, fmt.Errorf("ToBytes: %v", err)
	}
	bs, _, err := spec.Decode64(by)
	if err != nil {
		return nil, fmt.Errorf("independent decode of the 64-bit serialization: %v", err)
	}
	return spec.Set64Of(bs), nil
}

func check64(b *roaring64.Bitmap, want *model.Set) string {
	got, err := setOf64(b)
	if err != nil {
		return err.Error()
	}
	if !got.Equal(want) {
		return model.Diff(want, got)
	}
	if c := b.GetCardinality(); c != want.Card() {
		return fmt.Sprintf("GetCardinality=%d, contents have %d", c, want.Card())
	}
	if b.IsEmpty() != want.IsEmpty() {
		return fmt.Sprintf("IsEmpty=%v with %d elements", b.IsEmpty(), want.Card())
	}
	return ""
}

// set64 draws a 64-bit set: a few buckets, each filled from a 32-bit bitmap spec.
func set64(t *rapid.T, label string) *model.Set {
	n := rapid.IntRange(0, 3).Draw(t, label+".nbuckets")
	out := model.New()
	tiny := rapid.IntRange(0, 3).Draw(t, label+".tinybuckets") == 0
	if tiny {
		// many minimal buckets (one value or one short run each): the smallest legal encodings
		n = rapid.IntRange(1, 6).Draw(t, label+".ntiny")
	}
	for i := 0; i < n; i++ {
		b := rapid.SampledFrom(buckets).Draw(t, fmt.Sprintf("%s.b%d", label, i))
		if tiny {
			b = uint64(i) * 2
			if rapid.Bool().Draw(t, label+".top") {
				b = 0xFFFFFFFF - uint64(i)
			}
		}
		var inner *model.Set
		kind := rapid.IntRange(0, 3).Draw(t, fmt.Sprintf("%s.b%d.kind", label, i))
		if tiny {
			inner = model.New()
			a := rapid.SampledFrom(lows32).Draw(t, label+".ta")
			inner.AddRange(a, min64(a+uint64(rapid.IntRange(0, 9).Draw(t, label+".tl")), model.Max32))
			kind = -1
		}
		switch kind {
		case -1:
		case 0:
			inner = model.New()
			k := rapid.IntRange(1, 6).Draw(t, label+".npts")
			for j := 0; j < k; j++ {
				inner.Add(rapid.SampledFrom(lows32).Draw(t, label+".pt"))
			}
		case 1:
			inner = model.New()
			a := rapid.SampledFrom(lows32).Draw(t, label+".ra")
			inner.AddRange(a, min64(a+uint64(rapid.IntRange(0, 200000).Draw(t, label+".rl")), model.Max32))
		default:
			bs := gen.Bitmap(t, fmt.Sprintf("%s.b%d", label, i), gen.KindsValid, false)
			if len(bs.Chunks) > 6 {
				bs.Chunks = bs.Chunks[:6]
			}
			inner = bs.Set()
		}
		for _, iv := range inner.Intervals() {
			out.AddRange(b<<32+iv.Lo, b<<32+iv.Hi)
		}
	}
	return out
}

func min64(a, b uint64) uint64 {
	if a < b {
		return a
	}
	return b
}

// build64 makes a live 64-bit bitmap from a set, by AddRange/AddMany or through the serialization.
func build64(t *rapid.T, label string, m *model.Set) *roaring64.Bitmap {
	b := roaring64.New()
	how := rapid.IntRange(0, 2).Draw(t, label+".how")
	if how == 2 {
		enc := spec.Encode64(spec.Buckets64Of(m, nil), spec.EncOpts{})
		if _, err := b.ReadFrom(bytesReader(enc)); err != nil {
			t.Fatalf("harness: ReadFrom of a valid 64-bit stream: %v", err)
		}
		return b
	}
	for _, iv := range m.Intervals() {
		if how == 0 || iv.Hi-iv.Lo > 64 {
			if iv.Hi == model.Max64 {
				b.AddRange(iv.Lo, iv.Hi)
				b.Add(iv.Hi)
			} else {
				b.AddRange(iv.Lo, iv.Hi+1)
			}
		} else {
			vals := make([]uint64, 0, iv.Hi-iv.Lo+1)
			for v := iv.Lo; ; v++ {
				vals = append(vals, v)
				if v == iv.Hi {
					break
				}
			}
			b.AddMany(vals)
		}
	}
	if rapid.Bool().Draw(t, label+".runopt") {
		b.RunOptimize()
	}
	return b
}
