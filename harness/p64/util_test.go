package p64

import "bytes"

func bytesReader(b []byte) *bytes.Reader { return bytes.NewReader(b) }
