package p64

import (
	"bytes"
	"encoding/binary"
	"fmt"
	"testing"

	"github.com/RoaringBitmap/roaring/v2/roaring64"

	"verifharness/inst"
	"verifharness/model"
	"verifharness/spec"
)

// FuzzDecode64 is the coverage-guided target of C18 (thorough tier): any byte string whose
// claimed bucket count is not attacker-sized through every 64-bit entry point: error or bitmap,
// never a panic; an accepted input that the independent decoder also accepts decodes to the same set.
func FuzzDecode64(f *testing.F) {
	a := model.New()
	a.AddRange(5, 9)
	a.Add(1<<32 + 7)
	a.AddRange(3<<32+65000, 3<<32+70000)
	for _, m := range []*model.Set{model.New(), a} {
		enc := spec.Encode64(spec.Buckets64Of(m, nil), spec.EncOpts{})
		for e := uint8(0); e < 4; e++ {
			f.Add(enc, e)
			if len(enc) > 12 {
				f.Add(enc[:len(enc)-3], e)
			}
		}
	}
	for _, c := range []uint64{0, 1, 2, 1 << 16, 1 << 31, 1 << 32, 1<<32 + 1, 1 << 62, 1<<64 - 1} {
		d := make([]byte, 20)
		binary.LittleEndian.PutUint64(d, c)
		f.Add(d, uint8(0))
		f.Add(d, uint8(1))
	}
	f.Fuzz(func(t *testing.T, data []byte, entry uint8) {
		if len(data) > 1<<15 {
			return
		}
		e := int(entry) % 4
		if p, st := inst.Try(func() {
			b, _, _, err := decode64(e, data)
			if err != nil {
				return
			}
			verr := b.Validate()
			// (C18 allows "an error or a bitmap" for arbitrary bytes; only a bitmap that the library itself validates is
			// claimed to be the set the stream encodes - e.g. a bucket holding an empty 32-bit bitmap is syntactically
			// fine for the independent decoder, is accepted by the library, and fails Validate with "empty container")
			if bks, used, derr := spec.Decode64(data); verr == nil && derr == nil && used == len(data) && b.GetCardinality() < 1<<22 {
				if d := check64(b, spec.Set64Of(bks)); d != "" {
					t.Fatalf("%s read a valid 64-bit stream as another set: %s", e64[e], d)
				}
			}
		}); p != nil {
			t.Fatalf("%s panicked on %d bytes: %v [%s]", e64[e], len(data), p, st)
		}
	})
}

// ---- coverage-guided operation scripts over two 64-bit bitmaps (thorough tier of C17) ----

var fz64Buckets = []uint64{0, 1, 2, 0x7FFFFFFF, 0x80000000, 0xFFFFFFFE, 0xFFFFFFFF, 3}
var fz64Keys = []uint64{0, 1, 0x8000, 0xFFFF}
var fz64Lens = []uint64{1, 2, 64, 65, 4096, 4097, 65535, 65536, 65537, 200000, 1 << 20}

type fz64Reader struct {
	d []byte
	i int
}

func (r *fz64Reader) more() bool { return r.i < len(r.d) }
func (r *fz64Reader) u8() uint64 {
	if r.i >= len(r.d) {
		return 0
	}
	v := r.d[r.i]
	r.i++
	return uint64(v)
}
func (r *fz64Reader) value() uint64 {
	sel := r.u8()
	hi := fz64Buckets[sel%uint64(len(fz64Buckets))]
	k := fz64Keys[(sel>>3)%uint64(len(fz64Keys))]
	lo := r.u8()<<8 | r.u8()
	return hi<<32 | k<<16 | lo
}
func (r *fz64Reader) span() (uint64, uint64) {
	s := r.value()
	l := fz64Lens[r.u8()%uint64(len(fz64Lens))]
	e := s + l
	if e < s {
		e = model.Max64
	}
	return s, e
}

func fuzzOps64(data []byte) string {
	r := &fz64Reader{d: data}
	b := [2]*roaring64.Bitmap{roaring64.New(), roaring64.New()}
	m := [2]*model.Set{model.New(), model.New()}
	var hist []string
	logf := func(f string, a ...interface{}) { hist = append(hist, fmt.Sprintf(f, a...)) }
	bad := func(f string, a ...interface{}) string {
		h := hist
		if len(h) > 70 {
			h = h[len(h)-70:]
		}
		return fmt.Sprintf("%s\n  history(%d steps): %v", fmt.Sprintf(f, a...), len(hist), h)
	}
	for steps := 0; r.more() && steps < 64; steps++ {
		op := r.u8()
		i := int(op>>7) & 1
		x, mx := b[i], m[i]
		switch (op & 0x7F) % 18 {
		case 0:
			v := r.value()
			logf("b%d.Add(%d)", i, v)
			x.Add(v)
			mx.Add(v)
		case 1:
			v := r.value()
			logf("b%d.Remove(%d)", i, v)
			x.Remove(v)
			mx.Remove(v)
		case 2:
			v := r.value()
			logf("b%d.CheckedAdd(%d)", i, v)
			want := !mx.Contains(v)
			if got := x.CheckedAdd(v); got != want {
				return bad("CheckedAdd(%d)=%v, membership changed=%v", v, got, want)
			}
			mx.Add(v)
		case 3:
			v := r.value()
			logf("b%d.CheckedRemove(%d)", i, v)
			want := mx.Contains(v)
			if got := x.CheckedRemove(v); got != want {
				return bad("CheckedRemove(%d)=%v, membership changed=%v", v, got, want)
			}
			mx.Remove(v)
		case 4:
			s, e := r.span()
			logf("b%d.AddRange(%d,%d)", i, s, e)
			x.AddRange(s, e)
			if e > s {
				mx.AddRange(s, e-1)
			}
		case 5:
			s, e := r.span()
			logf("b%d.RemoveRange(%d,%d)", i, s, e)
			x.RemoveRange(s, e)
			if e > s {
				mx.RemoveRange(s, e-1)
			}
		case 6:
			s, e := r.span()
			logf("b%d.Flip(%d,%d)", i, s, e)
			x.Flip(s, e)
			if e > s {
				mx.FlipRange(s, e-1)
			}
		case 7:
			logf("b%d.RunOptimize()", i)
			x.RunOptimize()
		case 8:
			logf("b%d=b%d.Clone()", 1-i, i)
			b[1-i] = x.Clone()
			m[1-i] = mx.Clone()
		case 9:
			on := r.u8()&1 == 1
			logf("b%d.SetCopyOnWrite(%v)", i, on)
			x.SetCopyOnWrite(on)
		case 10:
			v := r.value()
			stride := r.u8()%9 + 1
			n := (r.u8()<<8 | r.u8()) % 5000
			vals := make([]uint64, 0, n)
			for k, w := uint64(0), v; k < n && w >= v; k, w = k+1, w+stride {
				vals = append(vals, w)
			}
			logf("b%d.AddMany(%d values from %d step %d)", i, len(vals), v, stride)
			x.AddMany(vals)
			for _, w := range vals {
				mx.Add(w)
			}
		case 11, 12, 13, 14:
			o := int((op&0x7F)%18) - 11
			logf("b%d.%s(b%d)", i, opName64[o], 1-i)
			nm := mop(o, mx, m[1-i])
			iop(o, x, b[1-i])
			m[i] = nm
		case 15:
			o := int(r.u8() % 4)
			logf("b%d=%s(b%d,b%d)", i, opName64[o], i, 1-i)
			b[i] = sop(o, x, b[1-i])
			m[i] = mop(o, mx, m[1-i])
		case 16:
			s, e := r.span()
			logf("b%d=Flip(b%d,%d,%d)", i, i, s, e)
			b[i] = roaring64.Flip(x, s, e)
			if e > s {
				mx.FlipRange(s, e-1)
			}
		case 17:
			by, err := x.ToBytes()
			if err != nil {
				return bad("ToBytes: %v", err)
			}
			nb := roaring64.New()
			if _, err := nb.ReadFrom(bytes.NewReader(by)); err != nil {
				return bad("ReadFrom(ToBytes): %v", err)
			}
			logf("b%d=ReadFrom(ToBytes(b%d))", i, i)
			b[i] = nb
		}
		for j := 0; j < 2; j++ {
			if c := b[j].GetCardinality(); c != m[j].Card() {
				return bad("b%d: GetCardinality=%d, the replayed set has %d", j, c, m[j].Card())
			}
		}
	}
	for j := 0; j < 2; j++ {
		if d := check64(b[j], m[j]); d != "" {
			return bad("b%d differs from the replay of its history: %s", j, d)
		}
		if !m[j].IsEmpty() {
			lo, _ := m[j].Select(0)
			hi, _ := m[j].Select(m[j].Card() - 1)
			if g := b[j].Minimum(); g != lo {
				return bad("b%d.Minimum=%d want %d", j, g, lo)
			}
			if g := b[j].Maximum(); g != hi {
				return bad("b%d.Maximum=%d want %d", j, g, hi)
			}
			if g := b[j].Rank(hi); g != m[j].Card() {
				return bad("b%d.Rank(max)=%d want %d", j, g, m[j].Card())
			}
			mid := m[j].Card() / 2
			w, _ := m[j].Select(mid)
			if g, err := b[j].Select(mid); err != nil || g != w {
				return bad("b%d.Select(%d)=(%d,%v) want %d", j, mid, g, err, w)
			}
		}
	}
	return ""
}

var opName64 = []string{"And", "Or", "Xor", "AndNot"}

// FuzzOps64 is the coverage-guided target of C17 (thorough tier).
func FuzzOps64(f *testing.F) {
	f.Add([]byte{})
	f.Add([]byte{4, 0, 0, 0, 7, 7, 5, 0, 0, 10, 3})
	f.Add([]byte{4, 6 | 3<<3, 0xFF, 0xF0, 5, 8, 6, 7, 0xFF, 0xFF, 0, 0x80 | 0, 1, 0, 1, 12})
	f.Add([]byte{10, 1, 0, 0, 1, 0x10, 0x00, 7, 0x80 | 4, 1, 0, 0x80, 9, 11, 0x80 | 13, 15, 2, 17})
	f.Fuzz(func(t *testing.T, data []byte) {
		if len(data) > 1024 {
			return
		}
		var msg string
		if p, st := inst.Try(func() { msg = fuzzOps64(data) }); p != nil {
			t.Fatalf("C17: panic inside the documented domain: %v [%s] script=%x", p, st, data)
		}
		if msg != "" {
			t.Fatalf("C17: %s", msg)
		}
	})
}
