package p64

import (
	"encoding/binary"
	"testing"

	"verifharness/inst"
	"verifharness/model"
	"verifharness/spec"
)

// FuzzDecode64 is the coverage-guided target of C18 (thorough tier): any byte string whose
// claimed bucket count is not attacker-sized through every 64-bit entry point: error or bitmap,
// never a panic; an accepted input that the independent decoder also accepts decodes to the same set.
func FuzzDecode64(f *testing.F) {
	a := model.New()
	a.AddRange(5, 9)
	a.Add(1<<32 + 7)
	a.AddRange(3<<32+65000, 3<<32+70000)
	for _, m := range []*model.Set{model.New(), a} {
		enc := spec.Encode64(spec.Buckets64Of(m, nil), spec.EncOpts{})
		for e := uint8(0); e < 4; e++ {
			f.Add(enc, e)
			if len(enc) > 12 {
				f.Add(enc[:len(enc)-3], e)
			}
		}
	}
	for _, c := range []uint64{0, 1, 2, 1 << 16, 1 << 31, 1 << 32, 1<<32 + 1, 1 << 62, 1<<64 - 1} {
		d := make([]byte, 20)
		binary.LittleEndian.PutUint64(d, c)
		f.Add(d, uint8(0))
		f.Add(d, uint8(1))
	}
	f.Fuzz(func(t *testing.T, data []byte, entry uint8) {
		if len(data) > 1<<15 {
			return
		}
		e := int(entry) % 4
		if p, st := inst.Try(func() {
			b, _, _, err := decode64(e, data)
			if err != nil {
				return
			}
			b.Validate()
			if bks, used, derr := spec.Decode64(data); derr == nil && used == len(data) && b.GetCardinality() < 1<<22 {
				if d := check64(b, spec.Set64Of(bks)); d != "" {
					t.Fatalf("%s read a valid 64-bit stream as another set: %s", e64[e], d)
				}
			}
		}); p != nil {
			t.Fatalf("%s panicked on %d bytes: %v [%s]", e64[e], len(data), p, st)
		}
	})
}
