package p64

import (
	"fmt"
	"testing"

	"github.com/RoaringBitmap/roaring/v2/roaring64"
	"pgregory.net/rapid"

	"verifharness/inst"
	"verifharness/model"
)

// propC17Agg: the 64-bit many-way aggregates over lists whose buckets fall in a common window
// placed at the bottom, in the middle or at the very top of the 32-bit bucket space; ParOr is run
// with every worker count on the same list.
func propC17Agg(t *rapid.T) {
	n := rapid.IntRange(0, 6).Draw(t, "n")
	span := rapid.SampledFrom([]int{1, 2, 3, 5, 9, 13, 17, 33, 70}).Draw(t, "span")
	var k0 uint64
	place := rapid.SampledFrom([]string{"bottom", "middle", "top"}).Draw(t, "place")
	switch place {
	case "middle":
		k0 = 1 << 31
	case "top":
		k0 = 1<<32 - uint64(span)
	}
	var bs []*roaring64.Bitmap
	var ms []*model.Set
	desc := fmt.Sprintf("buckets %d..%d:", k0, k0+uint64(span)-1)
	for i := 0; i < n; i++ {
		label := fmt.Sprintf("m%d", i)
		switch rapid.IntRange(0, 8).Draw(t, label+".class") {
		case 0:
			bs, ms = append(bs, roaring64.New()), append(ms, model.New())
			desc += " empty"
			continue
		case 1:
			if len(bs) > 0 {
				j := rapid.IntRange(0, len(bs)-1).Draw(t, label+".dup")
				bs, ms = append(bs, bs[j]), append(ms, ms[j])
				desc += " dup"
				continue
			}
		}
		m := model.New()
		density := rapid.SampledFrom([]int{1, 2, 4}).Draw(t, label+".density")
		for k := 0; k < span; k++ {
			if span > 3 && rapid.IntRange(0, density-1).Draw(t, label+".has") != 0 {
				continue
			}
			lo := rapid.SampledFrom(lows32).Draw(t, label+".low")
			hi := min64(lo+uint64(rapid.SampledFrom([]int{0, 1, 5, 70000}).Draw(t, label+".len")), model.Max32)
			m.AddRange((k0+uint64(k))<<32+lo, (k0+uint64(k))<<32+hi)
		}
		bs, ms = append(bs, build64(t, label, m)), append(ms, m)
		desc += fmt.Sprintf(" [%d buckets]", len(bucketsOf(m)))
	}
	or, and := model.New(), model.New()
	for i, m := range ms {
		or = model.Or(or, m)
		if i == 0 {
			and = m.Clone()
		} else {
			and = model.And(and, m)
		}
	}
	args := func() []*roaring64.Bitmap { return append([]*roaring64.Bitmap(nil), bs...) }
	fn := rapid.SampledFrom([]string{"FastOr", "FastAnd", "ParOr"}).Draw(t, "fn")
	switch fn {
	case "FastOr":
		if d := check64(roaring64.FastOr(args()...), or); d != "" {
			t.Fatalf("roaring64.FastOr over %d bitmaps != union: %s\n  %s", len(bs), d, desc)
		}
	case "FastAnd":
		if d := check64(roaring64.FastAnd(args()...), and); d != "" {
			t.Fatalf("roaring64.FastAnd over %d bitmaps != intersection: %s\n  %s", len(bs), d, desc)
		}
	default:
		for _, w := range []int{0, 1, 2, 3, 4, 7, 16} {
			var res *roaring64.Bitmap
			if p, st := inst.Try(func() { res = roaring64.ParOr(w, args()...) }); p != nil {
				t.Fatalf("roaring64.ParOr(%d) panicked: %v [%s]\n  %s", w, p, st, desc)
			}
			if d := check64(res, or); d != "" {
				t.Fatalf("roaring64.ParOr(%d) over %d bitmaps != union: %s\n  %s", w, len(bs), d, desc)
			}
		}
	}
	inst.Count("C17", "agg:"+fn+":"+place)
	inst.Case("C17", n >= 2 && len(bucketsOf(or)) >= 2, fn+" "+desc)
}

func TestC17Agg(t *testing.T) { rapid.Check(t, propC17Agg) }
