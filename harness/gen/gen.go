// Package gen holds the rapid generators. They draw small parameter structs
// (shape + a few numbers), never element lists, so that shrinking is fast and
// replay files are small. Every random choice is a rapid draw.
package gen

import (
	"fmt"
	"sort"

	"pgregory.net/rapid"

	"verifharness/model"
	"verifharness/spec"
)

// ---- chunk contents -------------------------------------------------------

// Lows are 16-bit positions where the container code has edges.
var Lows = []uint64{0, 1, 2, 62, 63, 64, 65, 127, 128, 510, 511, 512, 513, 4095, 4096, 4097, 32767, 32768, 65470, 65471, 65472, 65533, 65534, 65535}

func Low(t *rapid.T, label string) uint64 {
	if rapid.IntRange(0, 2).Draw(t, label+"~edge") == 0 {
		return uint64(rapid.IntRange(0, 65535).Draw(t, label))
	}
	return rapid.SampledFrom(Lows).Draw(t, label)
}

var exactCards = []int{1, 2, 4095, 4096, 4097, 4098, 8191, 8192, 65535, 65536}

const NShapes = 14

// ChunkContent draws the content of one chunk as a normalized interval list
// inside 0..65535 (never empty) together with the name of the shape used.
func ChunkContent(t *rapid.T, label string) ([]model.Iv, string) {
	shape := rapid.IntRange(0, NShapes-1).Draw(t, label+".shape")
	return chunkShape(t, label, shape, 0)
}

func clip(s *model.Set) *model.Set { return s.Window(0, 65535) }

func chunkShape(t *rapid.T, label string, shape int, depth int) ([]model.Iv, string) {
	s := model.New()
	name := ""
	switch shape {
	case 0: // small explicit list
		name = "list"
		n := rapid.IntRange(1, 8).Draw(t, label+".n")
		for i := 0; i < n; i++ {
			s.Add(Low(t, label+".v"))
		}
	case 1: // arithmetic progression
		name = "progression"
		base := Low(t, label+".base")
		step := uint64(rapid.IntRange(1, 70).Draw(t, label+".step"))
		cnt := rapid.IntRange(1, 9000).Draw(t, label+".count")
		vs := make([]uint64, 0, cnt)
		for i, v := 0, base; i < cnt && v <= 65535; i, v = i+1, v+step {
			vs = append(vs, v)
		}
		s = model.FromValues(vs)
	case 2: // k runs of length l with gap g
		name = "runs"
		base := Low(t, label+".base")
		k := rapid.IntRange(1, 2100).Draw(t, label+".k")
		l := uint64(rapid.IntRange(1, 200).Draw(t, label+".len"))
		g := uint64(rapid.IntRange(1, 100).Draw(t, label+".gap"))
		ivs := make([]model.Iv, 0, k)
		for i, v := 0, base; i < k && v <= 65535; i, v = i+1, v+l+g {
			ivs = append(ivs, model.Iv{Lo: v, Hi: v + l - 1})
		}
		s = clip(model.FromIntervals(ivs))
	case 3: // dense by word palette
		name = "words"
		pal := []uint64{0, ^uint64(0),
			rapid.Uint64().Draw(t, label+".w0"),
			rapid.Uint64().Draw(t, label+".w1"),
			0x8000000000000001, 0x5555555555555555}
		period := rapid.IntRange(1, 7).Draw(t, label+".period")
		pat := make([]int, period)
		for i := range pat {
			pat[i] = rapid.IntRange(0, len(pal)-1).Draw(t, label+".pat")
		}
		from := rapid.IntRange(0, 1023).Draw(t, label+".fromword")
		to := rapid.IntRange(from, 1023).Draw(t, label+".toword")
		var ivs []model.Iv
		for w := from; w <= to; w++ {
			x := pal[pat[w%period]]
			for b := uint64(0); b < 64; b++ {
				if x&(1<<b) != 0 {
					v := uint64(w)*64 + b
					if n := len(ivs); n > 0 && ivs[n-1].Hi+1 == v {
						ivs[n-1].Hi = v
					} else {
						ivs = append(ivs, model.Iv{Lo: v, Hi: v})
					}
				}
			}
		}
		s = model.FromIntervals(ivs)
	case 4:
		name = "full"
		s.AddRange(0, 65535)
	case 5:
		name = "single"
		s.Add(Low(t, label+".v"))
	case 6: // complement of another (non-recursive) shape
		name = "complement"
		if depth < 1 {
			inner, in := chunkShape(t, label+".inner", rapid.IntRange(0, 5).Draw(t, label+".innershape"), depth+1)
			name = "complement(" + in + ")"
			s = model.FromIntervals(inner).Complement(0, 65535)
		}
	case 7: // exactly n elements
		n := rapid.SampledFrom(exactCards).Draw(t, label+".card")
		name = fmt.Sprintf("exact%d", n)
		maxStep := 65536 / n
		if maxStep > 16 {
			maxStep = 16
		}
		step := uint64(rapid.IntRange(1, maxStep).Draw(t, label+".step"))
		span := uint64(n-1)*step + 1
		base := uint64(rapid.IntRange(0, int(65536-span)).Draw(t, label+".base"))
		if step == 1 {
			s.AddRange(base, base+span-1)
		} else {
			vs := make([]uint64, 0, n)
			for i := 0; i < n; i++ {
				vs = append(vs, base+uint64(i)*step)
			}
			s = model.FromValues(vs)
		}
	case 8: // edge anchored
		name = "edges"
		a := uint64(rapid.IntRange(0, 5000).Draw(t, label+".lowlen"))
		b := uint64(rapid.IntRange(0, 5000).Draw(t, label+".highlen"))
		if a > 0 {
			s.AddRange(0, a-1)
		}
		if b > 0 {
			s.AddRange(65536-b, 65535)
		}
		if rapid.Bool().Draw(t, label+".mid") {
			s.Add(Low(t, label+".midv"))
		}
	case 9: // runs that end / start at 64-bit word edges
		name = "wordedge"
		n := rapid.IntRange(1, 6).Draw(t, label+".n")
		for i := 0; i < n; i++ {
			w := uint64(rapid.IntRange(1, 1023).Draw(t, label+".word")) * 64
			before := uint64(rapid.IntRange(0, 70).Draw(t, label+".before"))
			after := uint64(rapid.IntRange(0, 70).Draw(t, label+".after"))
			if before > 0 {
				lo := uint64(0)
				if w > before {
					lo = w - before
				}
				s.AddRange(lo, w-1)
			}
			if after > 0 {
				s.AddRange(w, w+after-1)
			}
		}
		s = clip(s)
	case 10: // run-count thresholds: r runs of length len, r near 2047/2048, or near card/2
		name = "runthreshold"
		r := rapid.SampledFrom([]int{1, 2, 3, 1023, 1024, 2046, 2047, 2048, 2049}).Draw(t, label+".r")
		l := uint64(rapid.IntRange(1, 6).Draw(t, label+".len"))
		g := uint64(rapid.IntRange(1, 4).Draw(t, label+".gap"))
		ivs := make([]model.Iv, 0, r)
		for i, v := 0, uint64(0); i < r && v+l-1 <= 65535; i, v = i+1, v+l+g {
			ivs = append(ivs, model.Iv{Lo: v, Hi: v + l - 1})
		}
		s = model.FromIntervals(ivs)
	case 11: // one or two long runs
		name = "longrun"
		a, b := Low(t, label+".a"), Low(t, label+".b")
		if a > b {
			a, b = b, a
		}
		s.AddRange(a, b)
		if rapid.Bool().Draw(t, label+".second") {
			c, d := Low(t, label+".c"), Low(t, label+".d")
			if c > d {
				c, d = d, c
			}
			s.AddRange(c, d)
		}
	case 12: // a long run plus many isolated values elsewhere (run-efficient only because of the long run)
		name = "longrun+sparse"
		a := uint64(rapid.IntRange(0, 30000).Draw(t, label+".runstart"))
		l := uint64(rapid.IntRange(3000, 20000).Draw(t, label+".runlen"))
		s.AddRange(a, a+l-1)
		step := uint64(rapid.IntRange(2, 9).Draw(t, label+".step"))
		cnt := rapid.IntRange(100, 2000).Draw(t, label+".count")
		base := a + l + uint64(rapid.IntRange(1, 3000).Draw(t, label+".gap"))
		vs := make([]uint64, 0, cnt)
		for i, v := 0, base; i < cnt && v <= 65535; i, v = i+1, v+step {
			vs = append(vs, v)
		}
		s = model.Or(s, model.FromValues(vs))
	case 13: // isolated values on the chunk's edges (0 and/or 65535, optionally 1 / 65534 apart) around a few runs in the middle
		name = "edges+runs"
		switch rapid.IntRange(0, 3).Draw(t, label+".edges") {
		case 0:
			s.Add(0)
		case 1:
			s.Add(65535)
		default:
			s.Add(0)
			s.Add(65535)
		}
		if rapid.IntRange(0, 3).Draw(t, label+".near") == 0 {
			s.Add(rapid.SampledFrom([]uint64{2, 65533, 63, 64, 65472}).Draw(t, label+".nearv"))
		}
		k := rapid.IntRange(0, 3).Draw(t, label+".k")
		for i := 0; i < k; i++ {
			a := uint64(rapid.IntRange(2, 65000).Draw(t, label+".a"))
			l := uint64(rapid.IntRange(1, 3000).Draw(t, label+".l"))
			if a+l > 65533 {
				l = 65533 - a
			}
			s.AddRange(a, a+l)
		}
	}
	if s.IsEmpty() {
		s.Add(Low(t, label+".fallback"))
		name += "+fallback"
	}
	return s.Intervals(), name
}

// RunIsMinimal is the library's own rule for "a run chunk is the smallest form".
func RunIsMinimal(nruns, card int) bool {
	size := 2 + 4*nruns
	other := 2 * card
	if other > 8192 {
		other = 8192
	}
	return size < other
}

// ---- keys -----------------------------------------------------------------

var edgeKeys = []uint16{0, 1, 2, 3, 0x7FFF, 0x8000, 0xFFFE, 0xFFFF}

func Key(t *rapid.T, label string) uint16 {
	if rapid.IntRange(0, 3).Draw(t, label+"~rnd") == 0 {
		return uint16(rapid.IntRange(0, 65535).Draw(t, label))
	}
	return rapid.SampledFrom(edgeKeys).Draw(t, label)
}

// Keys draws n distinct sorted keys. Small universes make operand keys collide.
func Keys(t *rapid.T, label string, n int) []uint16 {
	if n > 12 {
		// dense block of keys starting somewhere (for galloping / channel-capacity thresholds)
		start := rapid.SampledFrom([]int{0, 1, 1000, 65536 - n}).Draw(t, label+".blockstart")
		stride := 1
		if start != 65536-n {
			stride = rapid.IntRange(1, 3).Draw(t, label+".stride")
		}
		if start+(n-1)*stride > 65535 {
			stride = 1
		}
		out := make([]uint16, n)
		for i := range out {
			out[i] = uint16(start + i*stride)
		}
		return out
	}
	seen := map[uint16]bool{}
	var out []uint16
	for tries := 0; len(out) < n && tries < 4*n+8; tries++ {
		k := Key(t, label)
		if !seen[k] {
			seen[k] = true
			out = append(out, k)
		}
	}
	sort.Slice(out, func(i, j int) bool { return out[i] < out[j] })
	return out
}

// ---- bitmaps ----------------------------------------------------------------

type BitmapSpec struct {
	Chunks []spec.Chunk
	Shapes []string
}

func (b BitmapSpec) Set() *model.Set { return spec.SetOf(b.Chunks) }

func (b BitmapSpec) String() string {
	s := fmt.Sprintf("%d chunks:", len(b.Chunks))
	for i, c := range b.Chunks {
		if i >= 10 {
			s += fmt.Sprintf(" …(+%d)", len(b.Chunks)-i)
			break
		}
		s += fmt.Sprintf(" [key=%d %s %s card=%d ivs=%d]", c.Key, c.Kind, b.Shapes[i], c.Card(), len(c.Ivs))
	}
	return s
}

type KindPolicy int

const (
	// KindsValid requests Run only where a run chunk is the smallest form
	// (what Validate() accepts); otherwise the natural kind.
	KindsValid KindPolicy = iota
	// KindsAnyLegal also requests Run for chunks where it is not the smallest
	// form (legal in the format, rejected by Validate()).
	KindsAnyLegal
)

// NChunks draws a chunk count from the size classes in the design.
func NChunks(t *rapid.T, label string, big bool) int {
	c := rapid.IntRange(0, 9).Draw(t, label+".sizeclass")
	switch {
	case c == 0:
		return 0
	case c <= 4:
		return rapid.IntRange(1, 3).Draw(t, label+".n")
	case c <= 7:
		return rapid.IntRange(4, 8).Draw(t, label+".n")
	case c == 8 || !big:
		return rapid.IntRange(17, 40).Draw(t, label+".n")
	default:
		return rapid.IntRange(70, 300).Draw(t, label+".n")
	}
}

func chunkFor(t *rapid.T, label string, key uint16, pol KindPolicy, cheap bool) (spec.Chunk, string) {
	var ivs []model.Iv
	var name string
	if cheap {
		// many-chunk bitmaps use cheap shapes only
		ivs, name = chunkShape(t, label, rapid.SampledFrom([]int{0, 4, 5, 8, 11}).Draw(t, label+".shape"), 0)
	} else {
		ivs, name = ChunkContent(t, label)
	}
	c := spec.Chunk{Key: key, Ivs: ivs}
	card := c.Card()
	c.Kind = spec.NaturalKind(card)
	wantRun := rapid.IntRange(0, 2).Draw(t, label+".kind") == 0
	min := RunIsMinimal(len(ivs), card)
	if pol == KindsValid {
		// a run chunk when it is minimal and requested; note: natural kind for a
		// run-minimal content is also a valid state (not yet RunOptimize'd)
		if wantRun && min {
			c.Kind = spec.Run
		}
	} else if wantRun {
		c.Kind = spec.Run
	}
	return c, name
}

func Bitmap(t *rapid.T, label string, pol KindPolicy, big bool) BitmapSpec {
	n := NChunks(t, label, big)
	return BitmapWithKeys(t, label, Keys(t, label+".key", n), pol)
}

func BitmapWithKeys(t *rapid.T, label string, keys []uint16, pol KindPolicy) BitmapSpec {
	var b BitmapSpec
	for i, k := range keys {
		c, name := chunkFor(t, fmt.Sprintf("%s.c%d", label, i), k, pol, len(keys) > 12)
		b.Chunks = append(b.Chunks, c)
		b.Shapes = append(b.Shapes, name)
	}
	return b
}

// Related draws a second operand derived from the first so that chunk keys
// align and results cross representation thresholds.
func Related(t *rapid.T, label string, a BitmapSpec, pol KindPolicy) (BitmapSpec, string) {
	mode := rapid.IntRange(0, 8).Draw(t, label+".relation")
	if len(a.Chunks) == 0 && mode != 0 {
		mode = 0
	}
	switch mode {
	case 0:
		return Bitmap(t, label, pol, false), "independent"
	case 1: // same keys, fresh contents
		keys := make([]uint16, len(a.Chunks))
		for i, c := range a.Chunks {
			keys[i] = c.Key
		}
		return BitmapWithKeys(t, label, keys, pol), "samekeys"
	case 2: // chunk-wise complement on a subset of keys (drives results to empty/full)
		var b BitmapSpec
		for i, c := range a.Chunks {
			if rapid.IntRange(0, 3).Draw(t, label+".drop") == 0 {
				continue
			}
			comp := model.FromIntervals(c.Ivs).Complement(0, 65535)
			if comp.IsEmpty() {
				comp.AddRange(0, 65535)
			}
			b.Chunks = append(b.Chunks, rekind(t, fmt.Sprintf("%s.c%d", label, i), spec.Chunk{Key: c.Key, Ivs: comp.Intervals()}, pol))
			b.Shapes = append(b.Shapes, "complement-of-A")
		}
		return b, "complement"
	case 3: // shifted copy
		d := int64(rapid.SampledFrom([]int{-65536, -4097, -64, -1, 1, 63, 64, 4096, 65535, 65536, 65537}).Draw(t, label+".shift"))
		s := a.Set().Shift(d, model.Max32)
		return fromSet(t, label, s, pol, "shifted-A"), "shifted"
	case 4: // subset: A minus a window per chunk
		s := a.Set()
		for i, c := range a.Chunks {
			lo, hi := Low(t, fmt.Sprintf("%s.cut%d.lo", label, i)), Low(t, fmt.Sprintf("%s.cut%d.hi", label, i))
			if lo > hi {
				lo, hi = hi, lo
			}
			s.RemoveRange(uint64(c.Key)<<16+lo, uint64(c.Key)<<16+hi)
		}
		return fromSet(t, label, s, pol, "subset-A"), "subset"
	case 5: // superset: A plus extra in same chunks and one more chunk
		s := a.Set()
		for i, c := range a.Chunks {
			lo, hi := Low(t, fmt.Sprintf("%s.add%d.lo", label, i)), Low(t, fmt.Sprintf("%s.add%d.hi", label, i))
			if lo > hi {
				lo, hi = hi, lo
			}
			s.AddRange(uint64(c.Key)<<16+lo, uint64(c.Key)<<16+hi)
		}
		k := Key(t, label+".extrakey")
		s.Add(uint64(k)<<16 + Low(t, label+".extraval"))
		return fromSet(t, label, s, pol, "superset-A"), "superset"
	case 6: // threshold crossing: B makes |A∪B| or |A∩B| of the first chunk hit 4096±1
		c := a.Chunks[0]
		as := model.FromIntervals(c.Ivs)
		card := int(as.Card())
		target := rapid.SampledFrom([]int{4095, 4096, 4097}).Draw(t, label+".target")
		bs := model.New()
		if card >= target {
			// intersection with target elements of A: take first `target` elements
			v, _ := as.Select(uint64(target - 1))
			bs = as.Window(0, v)
			// plus noise outside A
			if rapid.Bool().Draw(t, label+".noise") {
				comp := as.Complement(0, 65535)
				if !comp.IsEmpty() {
					bs.Add(comp.Min())
				}
			}
		} else {
			// union reaching target: add target-card elements outside A
			comp := as.Complement(0, 65535)
			need := uint64(target - card)
			if comp.Card() >= need && need > 0 {
				v, _ := comp.Select(need - 1)
				bs = comp.Window(0, v)
			} else {
				bs.Add(0)
			}
			if rapid.Bool().Draw(t, label+".overlap") {
				bs.Add(as.Min())
			}
		}
		full := model.New()
		for _, iv := range bs.Intervals() {
			full.AddRange(uint64(c.Key)<<16+iv.Lo, uint64(c.Key)<<16+iv.Hi)
		}
		return fromSet(t, label, full, pol, "threshold"), "threshold"
	case 8: // same keys, value spans that lie entirely above or below A's span in each chunk (or touch it in one value); same kind as A's chunk where legal
		var b BitmapSpec
		for i, c := range a.Chunks {
			as := model.FromIntervals(c.Ivs)
			lo, hi := as.Min(), as.Max()
			lbl := fmt.Sprintf("%s.d%d", label, i)
			var ivs []model.Iv
			above := rapid.Bool().Draw(t, lbl+".above")
			gap := uint64(rapid.SampledFrom([]int{0, 1, 2, 64, 1000}).Draw(t, lbl+".gap")) // 0: the two sides share exactly the border value
			switch {
			case above && hi+gap <= 65535:
				s0 := hi + gap
				l := uint64(rapid.IntRange(0, 6000).Draw(t, lbl+".len"))
				if ca := as.Card(); ca < 4096 && rapid.IntRange(0, 2).Draw(t, lbl+".sumThreshold") == 1 {
					// the two cardinalities add up to 4096 / 4097 / 4098 (array/bitmap border of a disjoint union)
					l = uint64(rapid.SampledFrom([]int{4096, 4097, 4098}).Draw(t, lbl+".sum")) - ca - 1
				}
				e0 := s0 + l
				if e0 > 65535 || rapid.IntRange(0, 3).Draw(t, lbl+".toEdge") == 0 {
					e0 = 65535
				}
				ivs = []model.Iv{{Lo: s0, Hi: e0}}
			case lo >= gap:
				e0 := lo - gap
				s0 := uint64(0)
				if l := uint64(rapid.IntRange(0, 6000).Draw(t, lbl+".len")); l < e0 && rapid.IntRange(0, 3).Draw(t, lbl+".toEdge") != 0 {
					s0 = e0 - l
				}
				ivs = []model.Iv{{Lo: s0, Hi: e0}}
			default:
				continue // A's chunk spans the whole range: no room
			}
			nc := spec.Chunk{Key: c.Key, Ivs: ivs}
			nc.Kind = spec.NaturalKind(nc.Card())
			if c.Kind == spec.Run && (pol == KindsAnyLegal || RunIsMinimal(len(ivs), nc.Card())) {
				nc.Kind = spec.Run
			} else {
				nc = rekind(t, lbl, nc, pol)
			}
			b.Chunks = append(b.Chunks, nc)
			b.Shapes = append(b.Shapes, "disjoint-span")
		}
		return b, "disjointspans"
	default: // interleaved keys
		keys := map[uint16]bool{}
		for _, c := range a.Chunks {
			if c.Key < 65535 && rapid.Bool().Draw(t, label+".next") {
				keys[c.Key+1] = true
			}
			if rapid.IntRange(0, 2).Draw(t, label+".same") == 0 {
				keys[c.Key] = true
			}
		}
		ks := make([]uint16, 0, len(keys))
		for k := range keys {
			ks = append(ks, k)
		}
		sort.Slice(ks, func(i, j int) bool { return ks[i] < ks[j] })
		return BitmapWithKeys(t, label, ks, pol), "interleaved"
	}
}

func rekind(t *rapid.T, label string, c spec.Chunk, pol KindPolicy) spec.Chunk {
	card := c.Card()
	c.Kind = spec.NaturalKind(card)
	wantRun := rapid.IntRange(0, 2).Draw(t, label+".kind") == 0
	if wantRun && (pol == KindsAnyLegal || RunIsMinimal(len(c.Ivs), card)) {
		c.Kind = spec.Run
	}
	return c
}

func fromSet(t *rapid.T, label string, s *model.Set, pol KindPolicy, shape string) BitmapSpec {
	var b BitmapSpec
	for i, c := range spec.ChunksOf(s, nil) {
		b.Chunks = append(b.Chunks, rekind(t, fmt.Sprintf("%s.c%d", label, i), c, pol))
		b.Shapes = append(b.Shapes, shape)
	}
	return b
}

// FromSet turns a set into a BitmapSpec drawing a kind per chunk.
func FromSet(t *rapid.T, label string, s *model.Set, pol KindPolicy) BitmapSpec {
	return fromSet(t, label, s, pol, "fromset")
}

// ---- argument values --------------------------------------------------------

// Value32 draws a uint32 biased to elements of s, their neighbours, chunk
// edges and the ends of the universe.
func Value32(t *rapid.T, label string, s *model.Set) uint32 {
	return uint32(Value33(t, label, s, false))
}

// Value33 draws from [0,2^32] (2^32 only when allowEnd) with the same bias.
func Value33(t *rapid.T, label string, s *model.Set, allowEnd bool) uint64 {
	c := rapid.IntRange(0, 9).Draw(t, label+".vclass")
	top := model.Max32
	if allowEnd {
		top = model.Max32 + 1
	}
	var v uint64
	switch {
	case c <= 3 && !s.IsEmpty():
		ivs := s.Intervals()
		iv := ivs[rapid.IntRange(0, len(ivs)-1).Draw(t, label+".iv")]
		switch rapid.IntRange(0, 5).Draw(t, label+".at") {
		case 0:
			v = iv.Lo
		case 1:
			v = iv.Hi
		case 2:
			v = iv.Lo - 1 // may wrap; clipped below
			if iv.Lo == 0 {
				v = 0
			}
		case 3:
			v = iv.Hi + 1
		case 4:
			v = iv.Lo + (iv.Hi-iv.Lo)/2
		default:
			v = iv.Hi + 2
		}
	case c <= 5:
		k := uint64(Key(t, label+".key"))
		off := rapid.SampledFrom([]int64{-2, -1, 0, 1, 2, 65534, 65535}).Draw(t, label+".edge")
		x := int64(k<<16) + off
		if x < 0 {
			x = 0
		}
		v = uint64(x)
	case c == 6:
		v = rapid.SampledFrom([]uint64{0, 1, model.Max32 - 1, model.Max32, model.Max32 + 1}).Draw(t, label+".end")
	case c == 7 && !s.IsEmpty():
		// inside some chunk of s at an edge low value
		keys := s.Keys16()
		k := keys[rapid.IntRange(0, len(keys)-1).Draw(t, label+".k")]
		v = uint64(k)<<16 + Low(t, label+".low")
	default:
		v = uint64(rapid.Uint32().Draw(t, label))
	}
	if v > top {
		v = top
	}
	return v
}
