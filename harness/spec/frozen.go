package spec

import (
	"encoding/binary"
	"math/bits"

	"verifharness/model"
)

const FrozenCookie = 13766

// EncodeFrozen writes the CRoaring frozen layout:
// bitset arena, run arena, array arena, keys, counts, typecodes, header.
// Unlike the portable format the typecode is explicit, so any Kind may be
// requested for any cardinality.
func EncodeFrozen(chunks []Chunk) []byte {
	var bitsets, runs, arrays, keys, counts, types []byte
	for _, c := range chunks {
		keys = binary.LittleEndian.AppendUint16(keys, c.Key)
		types = append(types, byte(c.Kind))
		switch c.Kind {
		case Bitmap:
			for _, w := range c.words() {
				bitsets = binary.LittleEndian.AppendUint64(bitsets, w)
			}
			counts = binary.LittleEndian.AppendUint16(counts, uint16(c.Card()-1))
		case Run:
			for _, iv := range c.Ivs {
				runs = binary.LittleEndian.AppendUint16(runs, uint16(iv.Lo))
				runs = binary.LittleEndian.AppendUint16(runs, uint16(iv.Hi-iv.Lo))
			}
			counts = binary.LittleEndian.AppendUint16(counts, uint16(len(c.Ivs)))
		case Array:
			for _, v := range c.values() {
				arrays = binary.LittleEndian.AppendUint16(arrays, v)
			}
			counts = binary.LittleEndian.AppendUint16(counts, uint16(c.Card()-1))
		}
	}
	var b []byte
	b = append(b, bitsets...)
	b = append(b, runs...)
	b = append(b, arrays...)
	b = append(b, keys...)
	b = append(b, counts...)
	b = append(b, types...)
	b = binary.LittleEndian.AppendUint32(b, uint32(FrozenCookie)|uint32(len(chunks))<<15)
	return b
}

// DecodeFrozen strictly parses a frozen buffer (the whole buffer is the bitmap).
func DecodeFrozen(b []byte) ([]Chunk, error) {
	if len(b) < 4 {
		return nil, rule("frozen-header", "only %d bytes", len(b))
	}
	h := binary.LittleEndian.Uint32(b[len(b)-4:])
	if h&0x7fff != FrozenCookie {
		return nil, rule("frozen-cookie", "got %#x", h&0x7fff)
	}
	n := int(h >> 15)
	if n > 65536 {
		return nil, rule("frozen-count", "%d", n)
	}
	body := b[:len(b)-4]
	if len(body) < 5*n {
		return nil, rule("frozen-tables", "truncated")
	}
	types := body[len(body)-n:]
	counts := body[len(body)-3*n : len(body)-n]
	keys := body[len(body)-5*n : len(body)-3*n]
	body = body[:len(body)-5*n]
	nb, nr, na := 0, 0, 0
	for i, t := range types {
		cnt := int(binary.LittleEndian.Uint16(counts[2*i:]))
		switch Kind(t) {
		case Bitmap:
			nb++
		case Run:
			nr += cnt
		case Array:
			na += cnt + 1
		default:
			return nil, rule("frozen-typecode", "chunk %d type %d", i, t)
		}
	}
	if len(body) != 8192*nb+4*nr+2*na {
		return nil, rule("frozen-arenas", "arena bytes %d, tables imply %d", len(body), 8192*nb+4*nr+2*na)
	}
	bp, rp, ap := 0, 8192*nb, 8192*nb+4*nr
	chunks := make([]Chunk, 0, n)
	for i, t := range types {
		key := binary.LittleEndian.Uint16(keys[2*i:])
		cnt := int(binary.LittleEndian.Uint16(counts[2*i:]))
		if i > 0 && key <= chunks[i-1].Key {
			return nil, rule("keys", "key[%d]=%d after %d", i, key, chunks[i-1].Key)
		}
		c := Chunk{Key: key, Kind: Kind(t)}
		switch c.Kind {
		case Bitmap:
			pc := 0
			for w := 0; w < 1024; w++ {
				x := binary.LittleEndian.Uint64(body[bp+8*w:])
				pc += bits.OnesCount64(x)
				c.Ivs = appendWordRuns(c.Ivs, x, uint64(w)*64)
			}
			bp += 8192
			if pc != cnt+1 {
				return nil, rule("cardinality", "chunk %d count field %d+1, bitmap holds %d", i, cnt, pc)
			}
		case Run:
			if cnt == 0 {
				return nil, rule("run", "zero runs")
			}
			for r := 0; r < cnt; r++ {
				st := uint64(binary.LittleEndian.Uint16(body[rp+4*r:]))
				ln := uint64(binary.LittleEndian.Uint16(body[rp+4*r+2:]))
				if st+ln > 65535 {
					return nil, rule("run", "wraps")
				}
				if r > 0 && st <= c.Ivs[r-1].Hi {
					return nil, rule("run", "overlap/unsorted")
				}
				c.Ivs = append(c.Ivs, model.Iv{Lo: st, Hi: st + ln})
			}
			rp += 4 * cnt
		case Array:
			var cur *model.Iv
			for j := 0; j <= cnt; j++ {
				v := uint64(binary.LittleEndian.Uint16(body[ap+2*j:]))
				if j > 0 && v <= cur.Hi {
					return nil, rule("array", "not strictly increasing")
				}
				if cur != nil && cur.Hi+1 == v {
					cur.Hi = v
				} else {
					c.Ivs = append(c.Ivs, model.Iv{Lo: v, Hi: v})
					cur = &c.Ivs[len(c.Ivs)-1]
				}
			}
			ap += 2 * (cnt + 1)
		}
		chunks = append(chunks, c)
	}
	return chunks, nil
}

// Bucket is one high-32 bucket of a 64-bit bitmap.
type Bucket struct {
	Key    uint32
	Chunks []Chunk
}

// Encode64 writes: uint64 bucket count, then (uint32 key, portable stream) per bucket.
func Encode64(bs []Bucket, o EncOpts) []byte {
	b := binary.LittleEndian.AppendUint64(nil, uint64(len(bs)))
	for _, k := range bs {
		b = binary.LittleEndian.AppendUint32(b, k.Key)
		p, _ := EncodePortable(k.Chunks, o)
		b = append(b, p...)
	}
	return b
}

func Decode64(b []byte) ([]Bucket, int, error) {
	if len(b) < 8 {
		return nil, 0, rule("count64", "truncated")
	}
	n := binary.LittleEndian.Uint64(b)
	if n > 1<<32 {
		return nil, 0, rule("count64", "%d buckets", n)
	}
	pos := 8
	var out []Bucket
	for i := uint64(0); i < n; i++ {
		if len(b) < pos+4 {
			return nil, 0, rule("key64", "truncated")
		}
		k := binary.LittleEndian.Uint32(b[pos:])
		pos += 4
		if i > 0 && k <= out[i-1].Key {
			return nil, 0, rule("key64", "bucket keys not increasing")
		}
		ch, used, err := DecodePortable(b[pos:], false)
		if err != nil {
			return nil, 0, err
		}
		pos += used
		out = append(out, Bucket{k, ch})
	}
	return out, pos, nil
}

// Set64Of returns the uint64 set held by buckets.
func Set64Of(bs []Bucket) *model.Set {
	var ivs []model.Iv
	for _, k := range bs {
		base := uint64(k.Key) << 32
		for _, iv := range SetOf(k.Chunks).Intervals() {
			ivs = append(ivs, model.Iv{Lo: base + iv.Lo, Hi: base + iv.Hi})
		}
	}
	return model.FromIntervals(ivs)
}

// Buckets64Of splits a uint64 set into buckets of chunks.
func Buckets64Of(s *model.Set, kindOf func(key uint16, card int, nruns int) Kind) []Bucket {
	var out []Bucket
	per := map[uint32]*model.Set{}
	var order []uint32
	for _, iv := range s.Intervals() {
		for k := iv.Lo >> 32; ; k++ {
			base := k << 32
			lo, hi := iv.Lo, iv.Hi
			if lo < base {
				lo = base
			}
			if hi > base+model.Max32 {
				hi = base + model.Max32
			}
			m, ok := per[uint32(k)]
			if !ok {
				m = model.New()
				per[uint32(k)] = m
				order = append(order, uint32(k))
			}
			m.AddRange(lo-base, hi-base)
			if k == iv.Hi>>32 {
				break
			}
		}
	}
	for _, k := range order {
		out = append(out, Bucket{k, ChunksOf(per[k], kindOf)})
	}
	return out
}
