// Package spec holds codecs for the portable (RoaringFormatSpec), frozen
// (CRoaring) and 64-bit layouts, written from the published format texts.
// It imports nothing from roaring.
package spec

import (
	"encoding/binary"
	"fmt"
	"math/bits"

	"verifharness/model"
)

type Kind uint8

// numbering = frozen typecodes
const (
	Bitmap Kind = 1
	Array  Kind = 2
	Run    Kind = 3
)

func (k Kind) String() string {
	switch k {
	case Bitmap:
		return "bitmap"
	case Array:
		return "array"
	case Run:
		return "run"
	}
	return fmt.Sprintf("kind(%d)", uint8(k))
}

// Chunk is one 65536-wide container. Ivs are closed intervals inside 0..65535,
// sorted and disjoint. For Run chunks the intervals are emitted exactly as
// given (so adjacent intervals = a legal-but-non-maximal run split).
type Chunk struct {
	Key  uint16
	Kind Kind
	Ivs  []model.Iv
}

func (c Chunk) Card() int {
	n := 0
	for _, iv := range c.Ivs {
		n += int(iv.Hi-iv.Lo) + 1
	}
	return n
}

// NaturalKind is the non-run kind the format prescribes for a cardinality.
func NaturalKind(card int) Kind {
	if card > 4096 {
		return Bitmap
	}
	return Array
}

func (c Chunk) values() []uint16 {
	out := make([]uint16, 0, c.Card())
	for _, iv := range c.Ivs {
		for v := iv.Lo; v <= iv.Hi; v++ {
			out = append(out, uint16(v))
		}
	}
	return out
}

func (c Chunk) words() []uint64 {
	w := make([]uint64, 1024)
	for _, iv := range c.Ivs {
		for v := iv.Lo; v <= iv.Hi; v++ {
			w[v>>6] |= 1 << (v & 63)
		}
	}
	return w
}

// Set returns the union of all chunks as a set of uint32 (held in uint64).
func SetOf(chunks []Chunk) *model.Set {
	var ivs []model.Iv
	for _, c := range chunks {
		base := uint64(c.Key) << 16
		for _, iv := range c.Ivs {
			ivs = append(ivs, model.Iv{Lo: base + iv.Lo, Hi: base + iv.Hi})
		}
	}
	return model.FromIntervals(ivs)
}

// ChunksOf splits a 32-bit set into chunks; kindOf picks the kind for each
// (nil = natural kind).
func ChunksOf(s *model.Set, kindOf func(key uint16, card int, nruns int) Kind) []Chunk {
	var out []Chunk
	for _, iv := range s.Intervals() {
		for k := iv.Lo >> 16; k <= iv.Hi>>16; k++ {
			base := k << 16
			lo, hi := iv.Lo, iv.Hi
			if lo < base {
				lo = base
			}
			if hi > base+65535 {
				hi = base + 65535
			}
			if len(out) == 0 || out[len(out)-1].Key != uint16(k) {
				out = append(out, Chunk{Key: uint16(k)})
			}
			c := &out[len(out)-1]
			c.Ivs = append(c.Ivs, model.Iv{Lo: lo - base, Hi: hi - base})
		}
	}
	for i := range out {
		card := out[i].Card()
		if kindOf != nil {
			out[i].Kind = kindOf(out[i].Key, card, len(out[i].Ivs))
		} else {
			out[i].Kind = NaturalKind(card)
		}
		if out[i].Kind != Run {
			out[i].Kind = NaturalKind(card)
		}
	}
	return out
}

const (
	CookieNoRun       = 12346
	CookieRun         = 12347
	NoOffsetThreshold = 4
)

// Layout records where each field of an encoded portable stream lives, so that
// fault catalogues can corrupt one field at a time.
type Layout struct {
	HasRunCookie bool
	N            int
	RunFlagsOff  int // -1 if none
	DescOff      int // descriptive header (key,card-1)*N
	OffsetsOff   int // -1 if absent
	PayloadOff   []int
	PayloadLen   []int
	Total        int
}

type EncOpts struct {
	// ForceRunCookie uses cookie 12347 even when no chunk is a run chunk
	// (legal: all run flags clear).
	ForceRunCookie bool
}

// EncodePortable writes chunks (already sorted by key, non-empty) per the spec.
func EncodePortable(chunks []Chunk, o EncOpts) ([]byte, Layout) {
	n := len(chunks)
	hasRun := o.ForceRunCookie
	for _, c := range chunks {
		if c.Kind == Run {
			hasRun = true
		}
	}
	if n == 0 {
		hasRun = false // cookie 12347 stores n-1 and cannot express 0 chunks
	}
	var b []byte
	l := Layout{HasRunCookie: hasRun, N: n, RunFlagsOff: -1, OffsetsOff: -1}
	if hasRun {
		b = binary.LittleEndian.AppendUint16(b, CookieRun)
		b = binary.LittleEndian.AppendUint16(b, uint16(n-1))
		l.RunFlagsOff = len(b)
		flags := make([]byte, (n+7)/8)
		for i, c := range chunks {
			if c.Kind == Run {
				flags[i/8] |= 1 << (i % 8)
			}
		}
		b = append(b, flags...)
	} else {
		b = binary.LittleEndian.AppendUint32(b, CookieNoRun)
		b = binary.LittleEndian.AppendUint32(b, uint32(n))
	}
	l.DescOff = len(b)
	for _, c := range chunks {
		b = binary.LittleEndian.AppendUint16(b, c.Key)
		b = binary.LittleEndian.AppendUint16(b, uint16(c.Card()-1))
	}
	withOffsets := !hasRun || n >= NoOffsetThreshold
	offPos := len(b)
	if withOffsets {
		l.OffsetsOff = offPos
		b = append(b, make([]byte, 4*n)...)
	}
	for i, c := range chunks {
		l.PayloadOff = append(l.PayloadOff, len(b))
		if withOffsets {
			binary.LittleEndian.PutUint32(b[offPos+4*i:], uint32(len(b)))
		}
		switch c.Kind {
		case Run:
			b = binary.LittleEndian.AppendUint16(b, uint16(len(c.Ivs)))
			for _, iv := range c.Ivs {
				b = binary.LittleEndian.AppendUint16(b, uint16(iv.Lo))
				b = binary.LittleEndian.AppendUint16(b, uint16(iv.Hi-iv.Lo))
			}
		case Array:
			for _, v := range c.values() {
				b = binary.LittleEndian.AppendUint16(b, v)
			}
		case Bitmap:
			for _, w := range c.words() {
				b = binary.LittleEndian.AppendUint64(b, w)
			}
		}
		l.PayloadLen = append(l.PayloadLen, len(b)-l.PayloadOff[i])
	}
	l.Total = len(b)
	return b, l
}

// appendWordRuns appends the runs of set bits of the 64-bit word x (bit 0 = value base).
func appendWordRuns(ivs []model.Iv, x uint64, base uint64) []model.Iv {
	for x != 0 {
		lo := uint64(bits.TrailingZeros64(x))
		ones := uint64(bits.TrailingZeros64(^(x >> lo)))
		s, e := base+lo, base+lo+ones-1
		if n := len(ivs); n > 0 && ivs[n-1].Hi+1 == s {
			ivs[n-1].Hi = e
		} else {
			ivs = append(ivs, model.Iv{Lo: s, Hi: e})
		}
		if lo+ones >= 64 {
			break
		}
		x &^= (uint64(1) << (lo + ones)) - 1
	}
	return ivs
}

// RuleError names the spec rule a stream breaks.
type RuleError struct{ Rule, Detail string }

func (e *RuleError) Error() string { return "spec rule " + e.Rule + ": " + e.Detail }

func rule(r, f string, a ...interface{}) error {
	return &RuleError{r, fmt.Sprintf(f, a...)}
}

// DecodePortable strictly parses one portable stream at the head of b and
// returns its chunks and the number of bytes it occupies. Run chunks keep the
// run list exactly as stored. strictRuns additionally demands non-adjacent
// (maximal) runs.
func DecodePortable(b []byte, strictRuns bool) ([]Chunk, int, error) {
	if len(b) < 4 {
		return nil, 0, rule("cookie", "only %d bytes", len(b))
	}
	cookie := binary.LittleEndian.Uint32(b)
	var n int
	var flags []byte
	pos := 4
	hasRun := false
	switch {
	case cookie&0xFFFF == CookieRun:
		hasRun = true
		n = int(cookie>>16) + 1
		fl := (n + 7) / 8
		if len(b) < pos+fl {
			return nil, 0, rule("runflags", "truncated")
		}
		flags = b[pos : pos+fl]
		pos += fl
		for i := n; i < fl*8; i++ {
			if flags[i/8]&(1<<(i%8)) != 0 {
				return nil, 0, rule("runflags", "padding bit %d set", i)
			}
		}
	case cookie == CookieNoRun:
		if len(b) < 8 {
			return nil, 0, rule("count", "truncated")
		}
		n = int(binary.LittleEndian.Uint32(b[4:]))
		pos = 8
	default:
		return nil, 0, rule("cookie", "got %#x", cookie)
	}
	if n > 65536 {
		return nil, 0, rule("count", "%d chunks", n)
	}
	if len(b) < pos+4*n {
		return nil, 0, rule("descriptive", "truncated")
	}
	desc := b[pos : pos+4*n]
	pos += 4 * n
	var offs []byte
	if !hasRun || n >= NoOffsetThreshold {
		if len(b) < pos+4*n {
			return nil, 0, rule("offsets", "truncated")
		}
		offs = b[pos : pos+4*n]
		pos += 4 * n
	}
	chunks := make([]Chunk, 0, n)
	for i := 0; i < n; i++ {
		key := binary.LittleEndian.Uint16(desc[4*i:])
		card := int(binary.LittleEndian.Uint16(desc[4*i+2:])) + 1
		if i > 0 && key <= chunks[i-1].Key {
			return nil, 0, rule("keys", "key[%d]=%d after %d", i, key, chunks[i-1].Key)
		}
		if offs != nil {
			if o := int(binary.LittleEndian.Uint32(offs[4*i:])); o != pos {
				return nil, 0, rule("offsets", "chunk %d offset %d but payload at %d", i, o, pos)
			}
		}
		c := Chunk{Key: key}
		isRun := flags != nil && flags[i/8]&(1<<(i%8)) != 0
		switch {
		case isRun:
			c.Kind = Run
			if len(b) < pos+2 {
				return nil, 0, rule("run", "truncated count")
			}
			nr := int(binary.LittleEndian.Uint16(b[pos:]))
			pos += 2
			if len(b) < pos+4*nr {
				return nil, 0, rule("run", "truncated runs")
			}
			if nr == 0 {
				return nil, 0, rule("run", "zero runs")
			}
			for r := 0; r < nr; r++ {
				st := uint64(binary.LittleEndian.Uint16(b[pos+4*r:]))
				ln := uint64(binary.LittleEndian.Uint16(b[pos+4*r+2:]))
				if st+ln > 65535 {
					return nil, 0, rule("run", "run %d wraps: start %d len-1 %d", r, st, ln)
				}
				if r > 0 {
					prev := c.Ivs[r-1]
					if st <= prev.Hi {
						return nil, 0, rule("run", "run %d overlaps/unsorted", r)
					}
					if strictRuns && st == prev.Hi+1 {
						return nil, 0, rule("run-adjacent", "run %d adjacent to previous", r)
					}
				}
				c.Ivs = append(c.Ivs, model.Iv{Lo: st, Hi: st + ln})
			}
			pos += 4 * nr
			if c.Card() != card {
				return nil, 0, rule("cardinality", "chunk %d header says %d, runs hold %d", i, card, c.Card())
			}
		case card > 4096:
			c.Kind = Bitmap
			if len(b) < pos+8192 {
				return nil, 0, rule("bitmap", "truncated")
			}
			pc := 0
			for w := 0; w < 1024; w++ {
				x := binary.LittleEndian.Uint64(b[pos+8*w:])
				pc += bits.OnesCount64(x)
				c.Ivs = appendWordRuns(c.Ivs, x, uint64(w)*64)
			}
			pos += 8192
			if pc != card {
				return nil, 0, rule("cardinality", "chunk %d header says %d, bitmap holds %d", i, card, pc)
			}
		default:
			c.Kind = Array
			if len(b) < pos+2*card {
				return nil, 0, rule("array", "truncated")
			}
			var cur *model.Iv
			for j := 0; j < card; j++ {
				v := uint64(binary.LittleEndian.Uint16(b[pos+2*j:]))
				if j > 0 && v <= cur.Hi {
					return nil, 0, rule("array", "chunk %d not strictly increasing at %d", i, j)
				}
				if cur != nil && cur.Hi+1 == v {
					cur.Hi = v
				} else {
					c.Ivs = append(c.Ivs, model.Iv{Lo: v, Hi: v})
					cur = &c.Ivs[len(c.Ivs)-1]
				}
			}
			pos += 2 * card
		}
		chunks = append(chunks, c)
	}
	return chunks, pos, nil
}
