package spec

import (
	"bufio"
	"fmt"
	"os"
	"strings"
	"testing"

	"verifharness/model"
)

const repo = "/repo"

// The format specification publishes the content of these two files:
// {k*1000 : k<100} ∪ {3k : 100000<=k<200000} ∪ [700000,800000).
func publishedSet() *model.Set {
	var vs []uint64
	for k := uint64(0); k < 100; k++ {
		vs = append(vs, k*1000)
	}
	for k := uint64(100000); k < 200000; k++ {
		vs = append(vs, 3*k)
	}
	s := model.FromValues(vs)
	s.AddRange(700000, 799999)
	return s
}

func TestAnchorPortableGolden(t *testing.T) {
	want := publishedSet()
	for _, f := range []string{"bitmapwithruns.bin", "bitmapwithoutruns.bin"} {
		b, err := os.ReadFile(repo + "/testdata/" + f)
		if err != nil {
			t.Fatal(err)
		}
		ch, used, err := DecodePortable(b, true)
		if err != nil {
			t.Fatalf("%s: %v", f, err)
		}
		if used != len(b) {
			t.Fatalf("%s: used %d of %d", f, used, len(b))
		}
		if got := SetOf(ch); !got.Equal(want) {
			t.Fatalf("%s: %s", f, model.Diff(want, got))
		}
		// my encoder must reproduce the file byte for byte
		enc, _ := EncodePortable(ch, EncOpts{})
		if string(enc) != string(b) {
			t.Fatalf("%s: re-encoding differs (len %d vs %d)", f, len(enc), len(b))
		}
	}
}

func TestAnchorFrozenGolden(t *testing.T) {
	for _, name := range []string{"arrays_only", "bitmaps_only", "mixed", "runs_only"} {
		p, err := os.ReadFile(repo + "/testfrozendata/" + name + ".portable")
		if err != nil {
			t.Fatal(err)
		}
		f, err := os.ReadFile(repo + "/testfrozendata/" + name + ".frozen")
		if err != nil {
			t.Fatal(err)
		}
		pc, used, err := DecodePortable(p, true)
		if err != nil || used != len(p) {
			t.Fatalf("%s portable: %v used=%d/%d", name, err, used, len(p))
		}
		fc, err := DecodeFrozen(f)
		if err != nil {
			t.Fatalf("%s frozen: %v", name, err)
		}
		if !SetOf(pc).Equal(SetOf(fc)) {
			t.Fatalf("%s: portable and frozen differ", name)
		}
		st, _ := os.Open(repo + "/testfrozendata/" + name + ".stats")
		sc := bufio.NewScanner(st)
		want := map[string]int{}
		for sc.Scan() {
			parts := strings.SplitN(sc.Text(), ":", 2)
			var v int
			fmt.Sscanf(strings.TrimSpace(parts[1]), "%d", &v)
			want[parts[0]] = v
		}
		st.Close()
		got := map[string]int{"Cardinality": int(SetOf(fc).Card())}
		for _, c := range fc {
			switch c.Kind {
			case Bitmap:
				got["Bitset containers"]++
			case Array:
				got["Array containers"]++
			case Run:
				got["Run containers"]++
			}
		}
		for k, v := range want {
			if got[k] != v {
				t.Fatalf("%s: %s = %d, stats file says %d", name, k, got[k], v)
			}
		}
		if string(EncodeFrozen(fc)) != string(f) {
			t.Fatalf("%s: frozen re-encoding differs", name)
		}
		enc, _ := EncodePortable(pc, EncOpts{})
		if string(enc) != string(p) {
			t.Fatalf("%s: portable re-encoding differs", name)
		}
	}
}
