// Package live turns generated specs into live roaring bitmaps in a chosen
// storage form, and extracts the contents of live bitmaps into the model.
package live

import (
	"bytes"
	"fmt"

	"github.com/RoaringBitmap/roaring/v2"
	"pgregory.net/rapid"

	"verifharness/gen"
	"verifharness/model"
	"verifharness/spec"
)

type Form int

const (
	Built     Form = iota // Add/AddMany/AddRange (+RunOptimize when any run chunk is requested)
	Read                  // spec-encoded bytes through ReadFrom (owned containers, exact kinds)
	Buffer                // FromBuffer (zero-copy, every chunk flagged shared)
	Unsafe                // FromUnsafeBytes
	Frozen                // FrozenView over spec-encoded frozen bytes
	CowShared             // Read + SetCopyOnWrite(true) + a kept Clone (both sides share every chunk)
	NForms
)

func (f Form) String() string {
	return [...]string{"built", "readfrom", "frombuffer", "fromunsafebytes", "frozenview", "cow-shared-clone"}[f]
}

// Live is a bitmap plus whatever must stay alive / unchanged behind it.
type Live struct {
	B     *roaring.Bitmap
	Form  Form
	Buf   []byte          // caller-owned bytes behind a zero-copy bitmap (nil otherwise)
	Orig  []byte          // pristine copy of Buf
	Twin  *roaring.Bitmap // the other side of a CowShared pair
	Model *model.Set
	keep  []*Live // operands whose buffers must outlive this bitmap
}

func DrawForm(t *rapid.T, label string) Form {
	return Form(rapid.IntRange(0, int(NForms)-1).Draw(t, label))
}

// Make materializes spec in the given form. Kinds are exact for every form
// except Built (which gets natural kinds, then RunOptimize if a run was asked).
func Make(bs gen.BitmapSpec, f Form) (*Live, error) {
	l := &Live{Form: f, Model: bs.Set()}
	switch f {
	case Built:
		b := roaring.New()
		wantRun := false
		for _, c := range bs.Chunks {
			base := uint64(c.Key) << 16
			if c.Kind == spec.Run {
				wantRun = true
			}
			if len(c.Ivs) > 64 || c.Kind != spec.Run {
				// element-wise for non-run chunks (exercises array->bitmap conversion)
				vals := make([]uint32, 0, c.Card())
				for _, iv := range c.Ivs {
					for v := iv.Lo; v <= iv.Hi; v++ {
						vals = append(vals, uint32(base+v))
					}
				}
				b.AddMany(vals)
			} else {
				for _, iv := range c.Ivs {
					b.AddRange(base+iv.Lo, base+iv.Hi+1)
				}
			}
		}
		if wantRun {
			b.RunOptimize()
		}
		l.B = b
	case Read, CowShared:
		enc, _ := spec.EncodePortable(bs.Chunks, spec.EncOpts{})
		b := roaring.New()
		n, err := b.ReadFrom(bytes.NewReader(enc))
		if err != nil || int(n) != len(enc) {
			return nil, fmt.Errorf("ReadFrom of spec-encoded stream: n=%d/%d err=%v", n, len(enc), err)
		}
		l.B = b
		if f == CowShared {
			b.SetCopyOnWrite(true)
			l.Twin = b.Clone()
		}
	case Buffer, Unsafe:
		enc, _ := spec.EncodePortable(bs.Chunks, spec.EncOpts{})
		l.Buf = enc
		l.Orig = append([]byte(nil), enc...)
		b := roaring.New()
		var n int64
		var err error
		if f == Buffer {
			n, err = b.FromBuffer(enc)
		} else {
			n, err = b.FromUnsafeBytes(enc)
		}
		if err != nil || int(n) != len(enc) {
			return nil, fmt.Errorf("%s of spec-encoded stream: n=%d/%d err=%v", f, n, len(enc), err)
		}
		l.B = b
	case Frozen:
		enc := spec.EncodeFrozen(bs.Chunks)
		l.Buf = enc
		l.Orig = append([]byte(nil), enc...)
		b := roaring.New()
		if err := b.FrozenView(enc); err != nil {
			return nil, fmt.Errorf("FrozenView of spec-encoded bytes: %v", err)
		}
		l.B = b
	}
	return l, nil
}

// BufferIntact reports whether the caller-owned bytes are unchanged.
func (l *Live) BufferIntact() bool { return l.Buf == nil || bytes.Equal(l.Buf, l.Orig) }

// SetOf extracts the contents of a live bitmap into the model. It also checks
// that ToArray is strictly increasing (an unordered list is reported as an error).
func SetOf(b *roaring.Bitmap) (*model.Set, error) {
	card := b.GetCardinality()
	if card > 30000 {
		// large sets: independent decode of the portable bytes (intervals, no element
		// list); falls through to ToArray when the bitmap cannot be serialized
		if by, err := b.ToBytes(); err == nil {
			if ch, _, err := spec.DecodePortable(by, false); err == nil {
				return spec.SetOf(ch), nil
			}
		}
	}
	if card <= 3<<20 {
		arr := b.ToArray()
		if uint64(len(arr)) != card {
			return nil, fmt.Errorf("ToArray has %d values, GetCardinality says %d", len(arr), card)
		}
		ivs := make([]model.Iv, 0, 16)
		for i, v := range arr {
			if i > 0 && v <= arr[i-1] {
				return nil, fmt.Errorf("ToArray not strictly increasing at index %d: %d after %d", i, v, arr[i-1])
			}
			if n := len(ivs); n > 0 && ivs[n-1].Hi+1 == uint64(v) {
				ivs[n-1].Hi = uint64(v)
			} else {
				ivs = append(ivs, model.Iv{Lo: uint64(v), Hi: uint64(v)})
			}
		}
		return model.FromIntervals(ivs), nil
	}
	// very large set that cannot be serialized (a malformed container: C09's business):
	// fall back to the library's own range iteration
	var ivs []model.Iv
	for s, e := range b.Ranges() {
		ivs = append(ivs, model.Iv{Lo: uint64(s), Hi: e - 1})
	}
	return model.FromIntervals(ivs), nil
}

// Check compares a live bitmap with the model; returns "" if equal.
func Check(b *roaring.Bitmap, want *model.Set) string {
	got, err := SetOf(b)
	if err != nil {
		return err.Error()
	}
	if !got.Equal(want) {
		return model.Diff(want, got)
	}
	if c := b.GetCardinality(); c != want.Card() {
		return fmt.Sprintf("GetCardinality=%d, contents have %d", c, want.Card())
	}
	if b.IsEmpty() != want.IsEmpty() {
		return fmt.Sprintf("IsEmpty=%v but %d elements", b.IsEmpty(), want.Card())
	}
	return ""
}

// KindInfo describes the chunks of a live bitmap as seen through its own
// serialization (independent decoder): used for classification only.
func Kinds(b *roaring.Bitmap) (string, []spec.Chunk) {
	by, err := b.ToBytes()
	if err != nil {
		return "?", nil
	}
	ch, _, err := spec.DecodePortable(by, false)
	if err != nil {
		return "?", nil
	}
	s := make([]byte, len(ch))
	for i, c := range ch {
		s[i] = "?bar"[c.Kind]
	}
	return string(s), ch
}

// History draws a bitmap whose representation depends on its history: a
// generated spec materialized in a generated form, then 0-6 mutations and 0-2
// algebra steps with other generated bitmaps. The model follows along.
func History(t *rapid.T, label string, big bool) (*Live, string) {
	bs := gen.Bitmap(t, label, gen.KindsValid, big)
	f := DrawForm(t, label+".form")
	l, err := Make(bs, f)
	if err != nil {
		t.Fatalf("cannot materialize %s as %s: %v", bs, f, err)
	}
	desc := fmt.Sprintf("%s as %s", bs, f)
	n := rapid.IntRange(0, 6).Draw(t, label+".nops")
	for i := 0; i < n; i++ {
		x := uint64(gen.Value32(t, label+".x", l.Model))
		w := uint64(rapid.SampledFrom([]int{1, 2, 64, 4096, 4097, 65536, 70000}).Draw(t, label+".w"))
		e := x + w
		if e > model.Max32+1 {
			e = model.Max32 + 1
		}
		switch rapid.IntRange(0, 8).Draw(t, label+".op") {
		case 8:
			// take scattered members out of a big chunk until exactly 4095 / 4096 / 4097 are left (static or in-place
			// difference, or symmetric difference, with an array-sized mask)
			var kk uint64
			found := false
			for _, k := range l.Model.Keys16() {
				if l.Model.Window(uint64(k)<<16, uint64(k)<<16+65535).Card() > 4097 {
					kk, found = uint64(k), true
					break
				}
			}
			if !found {
				continue
			}
			cw := l.Model.Window(kk<<16, kk<<16+65535)
			target := uint64(rapid.SampledFrom([]int{4095, 4096, 4097}).Draw(t, label+".land"))
			excess := cw.Card() - target
			if excess > 4096 {
				// first cut the tail so that an array-sized mask suffices
				v, _ := cw.Select(target + 4000)
				l.B.RemoveRange(v, kk<<16+65536)
				l.Model.RemoveRange(v, kk<<16+65535)
				cw = l.Model.Window(kk<<16, kk<<16+65535)
				excess = cw.Card() - target
			}
			step := cw.Card() / excess
			vals := make([]uint32, 0, excess)
			for i := uint64(0); i < excess; i++ {
				v, _ := cw.Select(i * step)
				vals = append(vals, uint32(v))
			}
			mask := roaring.BitmapOf(vals...)
			switch rapid.IntRange(0, 2).Draw(t, label+".landHow") {
			case 0:
				l.B = roaring.AndNot(l.B, mask)
				desc += fmt.Sprintf("; =AndNot(this, %d scattered values of chunk %d) leaving %d", len(vals), kk, target)
			case 1:
				l.B.AndNot(mask)
				desc += fmt.Sprintf("; AndNot(%d scattered values of chunk %d) leaving %d", len(vals), kk, target)
			default:
				l.B = roaring.Xor(l.B, mask)
				desc += fmt.Sprintf("; =Xor(this, %d scattered members of chunk %d) leaving %d", len(vals), kk, target)
			}
			l.Model = model.AndNot(l.Model, model.FromValues32(vals))
		case 0:
			l.B.Add(uint32(x))
			l.Model.Add(x)
			desc += fmt.Sprintf("; Add(%d)", x)
		case 1:
			l.B.Remove(uint32(x))
			l.Model.Remove(x)
			desc += fmt.Sprintf("; Remove(%d)", x)
		case 2:
			l.B.AddRange(x, e)
			l.Model.AddRange(x, e-1)
			desc += fmt.Sprintf("; AddRange(%d,%d)", x, e)
		case 3:
			l.B.RemoveRange(x, e)
			l.Model.RemoveRange(x, e-1)
			desc += fmt.Sprintf("; RemoveRange(%d,%d)", x, e)
		case 4:
			l.B.Flip(x, e)
			l.Model.FlipRange(x, e-1)
			desc += fmt.Sprintf("; Flip(%d,%d)", x, e)
		case 5:
			l.B.RunOptimize()
			desc += "; RunOptimize()"
		default:
			cur := bs
			if l.Model.Card() < 200000 && rapid.Bool().Draw(t, label+".relateToCurrent") {
				cur = gen.FromSet(t, label+".cur", l.Model, gen.KindsValid)
			}
			os, rel := gen.Related(t, label+".other", cur, gen.KindsValid)
			ol, err := Make(os, DrawForm(t, label+".oform"))
			if err != nil {
				t.Fatalf("cannot materialize: %v", err)
			}
			switch rapid.IntRange(0, 7).Draw(t, label+".alg") {
			case 0:
				l.B.And(ol.B)
				l.Model = model.And(l.Model, ol.Model)
				desc += "; And(" + rel + ")"
			case 1:
				l.B.Or(ol.B)
				l.Model = model.Or(l.Model, ol.Model)
				desc += "; Or(" + rel + ")"
			case 2:
				l.B = roaring.Xor(l.B, ol.B) // static: the in-place form is known to touch its argument
				l.Model = model.Xor(l.Model, ol.Model)
				desc += "; Xor(" + rel + ")"
			case 3:
				l.B.AndNot(ol.B)
				l.Model = model.AndNot(l.Model, ol.Model)
				desc += "; AndNot(" + rel + ")"
			case 4:
				// many-way forms take the lazy paths (deferred cardinalities, repair pass)
				l.B = roaring.FastOr(l.B, ol.B)
				l.Model = model.Or(l.Model, ol.Model)
				desc += "; =FastOr(this," + rel + ")"
			case 5:
				l.B = roaring.ParOr(2, l.B, ol.B, l.B)
				l.Model = model.Or(l.Model, ol.Model)
				desc += "; =ParOr(2,this," + rel + ",this)"
			case 6:
				l.B = roaring.ParHeapOr(0, ol.B, l.B)
				l.Model = model.Or(l.Model, ol.Model)
				desc += "; =ParHeapOr(0," + rel + ",this)"
			default:
				if rapid.Bool().Draw(t, label+".staticAnd") {
					l.B = roaring.And(ol.B, l.B)
					l.Model = model.And(l.Model, ol.Model)
					desc += "; =And(" + rel + ",this)"
				} else {
					l.B = roaring.Or(ol.B, l.B)
					l.Model = model.Or(l.Model, ol.Model)
					desc += "; =Or(" + rel + ",this)"
				}
			}
			l.keep = append(l.keep, ol)
		}
	}
	return l, desc
}
