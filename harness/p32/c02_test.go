package p32

import (
	"fmt"
	"runtime"
	"strings"
	"testing"

	"github.com/RoaringBitmap/roaring/v2"
	"pgregory.net/rapid"

	"verifharness/gen"
	"verifharness/inst"
	"verifharness/live"
	"verifharness/model"
)

// drawRange draws a half-open [start,end) with 0<=start,end<=2^32 (start>=end allowed: no-op).
func drawRange(t *rapid.T, label string, m *model.Set) (uint64, uint64) {
	s := gen.Value33(t, label+".start", m, true)
	var e uint64
	switch rapid.IntRange(0, 9).Draw(t, label+".width") {
	case 0:
		e = gen.Value33(t, label+".end", m, true) // anywhere (may be < start)
	case 1:
		e = s + uint64(rapid.SampledFrom([]int{65536, 65537, 131072, 200000}).Draw(t, label+".w"))
	case 2:
		e = model.Max32 + 1
		if s+400000 < e && rapid.IntRange(0, 3).Draw(t, label+".far") != 0 {
			s = e - uint64(rapid.IntRange(0, 200000).Draw(t, label+".fromend"))
		}
	case 3: // to the end of start's chunk, or into the next
		e = (s>>16+1)<<16 + uint64(rapid.SampledFrom([]int{-1, 0, 1, 2}).Draw(t, label+".over"))
	default:
		e = s + uint64(rapid.IntRange(0, 9000).Draw(t, label+".w"))
	}
	if e > model.Max32+1 {
		e = model.Max32 + 1
	}
	return s, e
}

func kindsSig(b *roaring.Bitmap) string {
	ch := b.VerifChunks()
	if len(ch) > 64 {
		return fmt.Sprintf("%d chunks", len(ch))
	}
	var sb strings.Builder
	for _, c := range ch {
		fmt.Fprintf(&sb, "%d%c", c.Key, "?bar"[c.Kind])
	}
	return sb.String()
}

func propC02(t *rapid.T) {
	// initial state
	var lv *live.Live
	initDesc := "empty"
	zeroCopy := false
	if rapid.IntRange(0, 2).Draw(t, "start") == 0 {
		lv = &live.Live{B: roaring.New(), Model: model.New()}
	} else {
		bs := gen.Bitmap(t, "init", gen.KindsValid, false)
		f := live.DrawForm(t, "form")
		lv = mustMake(t, bs, f)
		zeroCopy = f == live.Buffer || f == live.Unsafe || f == live.Frozen
		initDesc = fmt.Sprintf("%s as %s", bs, f)
	}
	b, m := lv.B, lv.Model
	type kept struct {
		b *roaring.Bitmap
		m *model.Set
	}
	var originals []kept
	var ops []string
	multiChunk, kindChange := false, false
	steps := 0
	sig := kindsSig(b)
	log := func(f string, a ...interface{}) { ops = append(ops, fmt.Sprintf(f, a...)) }

	t.Repeat(map[string]func(*rapid.T){
		"Add": func(t *rapid.T) {
			x := gen.Value32(t, "x", m)
			log("Add(%d)", x)
			b.Add(x)
			m.Add(uint64(x))
		},
		"CheckedAdd": func(t *rapid.T) {
			x := gen.Value32(t, "x", m)
			log("CheckedAdd(%d)", x)
			got, want := b.CheckedAdd(x), m.Add(uint64(x))
			if got != want {
				t.Fatalf("CheckedAdd(%d)=%v, membership changed=%v", x, got, want)
			}
		},
		"AddInt": func(t *rapid.T) {
			x := gen.Value32(t, "x", m)
			log("AddInt(%d)", x)
			b.AddInt(int(x))
			m.Add(uint64(x))
		},
		"AddMany": func(t *rapid.T) {
			n := rapid.IntRange(0, 40).Draw(t, "n")
			vals := make([]uint32, 0, n+8)
			for i := 0; i < n; i++ {
				v := gen.Value32(t, "v", m)
				vals = append(vals, v)
				if rapid.IntRange(0, 3).Draw(t, "burst") == 0 { // same-chunk burst (AddMany batches by chunk)
					k := rapid.IntRange(1, 5000).Draw(t, "burstlen")
					step := uint32(rapid.IntRange(1, 3).Draw(t, "burststep"))
					for j := 0; j < k; j++ {
						v += step
						vals = append(vals, v)
					}
				}
			}
			log("AddMany(%d values, first=%v)", len(vals), head(vals))
			b.AddMany(vals)
			m.AddValues32(vals)
		},
		"Remove": func(t *rapid.T) {
			x := gen.Value32(t, "x", m)
			log("Remove(%d)", x)
			b.Remove(x)
			m.Remove(uint64(x))
		},
		"CheckedRemove": func(t *rapid.T) {
			x := gen.Value32(t, "x", m)
			log("CheckedRemove(%d)", x)
			got, want := b.CheckedRemove(x), m.Remove(uint64(x))
			if got != want {
				t.Fatalf("CheckedRemove(%d)=%v, membership changed=%v", x, got, want)
			}
		},
		"AddRange": func(t *rapid.T) {
			s, e := drawRange(t, "r", m)
			log("AddRange(%d,%d)", s, e)
			b.AddRange(s, e)
			if e > s {
				m.AddRange(s, e-1)
				multiChunk = multiChunk || (s>>16 != (e-1)>>16)
			}
		},
		"RemoveRange": func(t *rapid.T) {
			s, e := drawRange(t, "r", m)
			log("RemoveRange(%d,%d)", s, e)
			b.RemoveRange(s, e)
			if e > s {
				m.RemoveRange(s, e-1)
				multiChunk = multiChunk || (s>>16 != (e-1)>>16)
			}
		},
		"Flip": func(t *rapid.T) {
			s, e := drawRange(t, "r", m)
			log("Flip(%d,%d)", s, e)
			b.Flip(s, e)
			if e > s {
				m.FlipRange(s, e-1)
				multiChunk = multiChunk || (s>>16 != (e-1)>>16)
			}
		},
		"Clear": func(t *rapid.T) {
			if rapid.IntRange(0, 3).Draw(t, "really") != 0 {
				t.Skip("rarely")
			}
			log("Clear()")
			b.Clear()
			m.Clear()
		},
		"RunOptimize": func(t *rapid.T) {
			log("RunOptimize()")
			b.RunOptimize()
		},
		"Clone": func(t *rapid.T) {
			log("Clone() and continue on the clone")
			originals = append(originals, kept{b, m.Clone()})
			b = b.Clone()
		},
		"CloneCopyOnWriteContainers": func(t *rapid.T) {
			log("CloneCopyOnWriteContainers()")
			b.CloneCopyOnWriteContainers()
		},
		"SetCopyOnWrite": func(t *rapid.T) {
			if zeroCopy {
				t.Skip("documented misuse on zero-copy bitmaps")
			}
			v := rapid.Bool().Draw(t, "on")
			log("SetCopyOnWrite(%v)", v)
			b.SetCopyOnWrite(v)
		},
		"DriveChunkToThreshold": func(t *rapid.T) {
			// read the model, bring one chunk to exactly n elements from below or above
			key := uint64(gen.Key(t, "key"))
			if keys := m.Keys16(); len(keys) > 0 && rapid.Bool().Draw(t, "existing") {
				key = uint64(keys[rapid.IntRange(0, len(keys)-1).Draw(t, "ki")])
			}
			target := uint64(rapid.SampledFrom([]int{0, 1, 4095, 4096, 4097, 65535, 65536}).Draw(t, "target"))
			base := key << 16
			cur := m.Window(base, base+65535)
			have := cur.Card()
			pointwise := rapid.Bool().Draw(t, "pointwise")
			log("DriveChunk(key=%d from %d to %d pointwise=%v)", key, have, target, pointwise)
			if have < target {
				comp := cur.Complement(base, base+65535)
				need := target - have
				last, _ := comp.Select(need - 1)
				add := comp.Window(base, last)
				for _, iv := range add.Intervals() {
					if pointwise && iv.Hi-iv.Lo < 600 {
						for v := iv.Lo; v <= iv.Hi; v++ {
							b.Add(uint32(v))
						}
					} else {
						b.AddRange(iv.Lo, iv.Hi+1)
					}
					m.AddRange(iv.Lo, iv.Hi)
				}
			} else if have > target {
				drop := have - target
				last, _ := cur.Select(drop - 1)
				rem := cur.Window(base, last)
				for _, iv := range rem.Intervals() {
					if pointwise && iv.Hi-iv.Lo < 600 {
						for v := iv.Lo; v <= iv.Hi; v++ {
							b.Remove(uint32(v))
						}
					} else {
						b.RemoveRange(iv.Lo, iv.Hi+1)
					}
					m.RemoveRange(iv.Lo, iv.Hi)
				}
			}
		},
		"": func(t *rapid.T) {
			steps++
			card := m.Card()
			if card <= 300000 || steps%8 == 0 {
				if d := live.Check(b, m); d != "" {
					t.Fatalf("after %d steps bitmap != replay of history: %s\n  init=%s\n  ops=%s", steps, d, initDesc, strings.Join(ops, "; "))
				}
			} else if b.GetCardinality() != card {
				t.Fatalf("cardinality %d want %d after ops=%s", b.GetCardinality(), card, strings.Join(ops, "; "))
			}
			if ns := kindsSig(b); ns != sig {
				if kindLetters(ns) != kindLetters(sig) {
					kindChange = true
				}
				sig = ns
			}
		},
	})
	if lv.Form == live.Frozen {
		runtime.GC()
	}
	if d := live.Check(b, m); d != "" {
		t.Fatalf("final: bitmap != replay of history: %s\n  init=%s\n  ops=%s", d, initDesc, strings.Join(ops, "; "))
	}
	for i, o := range originals {
		if d := live.Check(o.b, o.m); d != "" {
			t.Fatalf("bitmap that was Clone()d at some point changed afterwards (original #%d): %s\n  init=%s\n  ops=%s", i, d, initDesc, strings.Join(ops, "; "))
		}
	}
	if !lv.BufferIntact() {
		t.Fatalf("caller-owned buffer behind the initial %s bitmap was modified; ops=%s", lv.Form, strings.Join(ops, "; "))
	}
	runtime.KeepAlive(lv)
	inst.Count("C02", "init:"+map[bool]string{true: "empty", false: lv.Form.String()}[initDesc == "empty"])
	if multiChunk {
		inst.Count("C02", "history-with-multichunk-range")
	}
	if kindChange {
		inst.Count("C02", "history-with-kind-change")
	}
	inst.CountN("C02", "steps", len(ops))
	inst.Case("C02", multiChunk || kindChange, "init="+initDesc+" ops="+strings.Join(ops, "; "))
}

func kindLetters(sig string) string {
	var sb strings.Builder
	for _, r := range sig {
		if r == 'a' || r == 'b' || r == 'r' {
			sb.WriteRune(r)
		}
	}
	return sb.String()
}

func head(v []uint32) []uint32 {
	if len(v) > 4 {
		return v[:4]
	}
	return v
}

func TestC02(t *testing.T) { rapid.Check(t, propC02) }
