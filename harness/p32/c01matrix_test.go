package p32

import (
	"fmt"
	"os"
	"runtime"
	"strconv"
	"testing"

	"verifharness/gen"
	"verifharness/inst"
	"verifharness/live"
	"verifharness/model"
	"verifharness/spec"
)

// matrixTemplates are single-chunk contents at the representation boundaries.
func matrixTemplates() map[string]*model.Set {
	t := map[string]*model.Set{}
	rng := func(lo, hi uint64) *model.Set { s := model.New(); s.AddRange(lo, hi); return s }
	step := func(lo, st uint64, n int) *model.Set {
		vs := make([]uint64, 0, n)
		for i := 0; i < n; i++ {
			vs = append(vs, lo+uint64(i)*st)
		}
		return model.FromValues(vs)
	}
	runs := func(n int, l, gap uint64) *model.Set {
		s := model.New()
		for i, v := 0, uint64(0); i < n && v+l-1 <= 65535; i, v = i+1, v+l+gap {
			s.AddRange(v, v+l-1)
		}
		return s
	}
	t["one-low"] = rng(0, 0)
	t["one-high"] = rng(65535, 65535)
	t["two-ends"] = model.Or(rng(0, 0), rng(65535, 65535))
	t["run4096"] = rng(0, 4095)
	t["run4097"] = rng(0, 4096)
	t["run4096@1"] = rng(1, 4096)
	t["evens4096"] = step(0, 2, 4096)
	t["evens4097"] = step(0, 2, 4097)
	t["odds4096"] = step(1, 2, 4096)
	t["full"] = rng(0, 65535)
	t["full-1hi"] = rng(0, 65534)
	t["full-1lo"] = rng(1, 65535)
	t["mid-run"] = rng(100, 200)
	t["word-edge-63-64"] = rng(63, 64)
	t["word0"] = rng(0, 63)
	t["word1"] = rng(64, 127)
	t["4090-4100"] = rng(4090, 4100)
	t["2047runs"] = runs(2047, 3, 5)
	t["2048runs"] = runs(2048, 3, 5)
	t["every16"] = step(0, 16, 4096)
	t["every15"] = step(0, 15, 4369)
	t["upper-half"] = rng(32768, 65535)
	t["lower-half"] = rng(0, 32767)
	t["holes"] = model.AndNot(rng(0, 65535), step(5, 64, 1024))
	t["sparse-tail"] = model.Or(rng(0, 9999), step(20000, 7, 1500))
	t["evens-from-8190"] = step(8190, 2, 2000)   // touches evens4096 in exactly one value
	t["thirds-up-to-8190"] = step(8190-3*1500, 3, 1501) // ends where evens-from-8190 starts
	return t
}

// TestC01Matrix enumerates (not samples) a finite space: every ordered pair of boundary templates on one
// aligned chunk x requested kinds x {owned, zero-copy shared} x 4 ops x {static, in-place}, with and without
// unaligned neighbour chunks. The space is partitioned over the driver's shards.
func TestC01Matrix(t *testing.T) {
	shard, _ := strconv.Atoi(os.Getenv("VERIF_SHARD"))
	shards, _ := strconv.Atoi(os.Getenv("VERIF_SHARDS"))
	if shards <= 0 {
		shards = 1
	}
	tpl := matrixTemplates()
	names := make([]string, 0, len(tpl))
	for n := range tpl {
		names = append(names, n)
	}
	sortStrings(names)
	if os.Getenv("VERIF_TIER") != "thorough" {
		// quick tier: a fixed subset of 13 templates; thorough: all 25
		names = []string{"2047runs", "2048runs", "4090-4100", "evens4096", "evens4097", "full", "full-1hi", "holes", "one-high", "run4096", "run4097", "sparse-tail", "word-edge-63-64"}
	}
	kindsOf := func(s *model.Set) []spec.Kind {
		iv := s.Intervals()
		out := []spec.Kind{spec.NaturalKind(int(s.Card()))}
		if len(iv) <= 2100 {
			out = append(out, spec.Run) // legal even when not minimal
		}
		return out
	}
	forms := []live.Form{live.Read, live.Buffer}
	cell := 0
	const key = 7
	for _, na := range names {
		for _, nb := range names {
			for _, ka := range kindsOf(tpl[na]) {
				for _, kb := range kindsOf(tpl[nb]) {
					for _, fa := range forms {
						for _, fb := range forms {
							for _, neighbours := range []bool{false, true} {
								cell++
								if cell%shards != shard%shards {
									continue
								}
								mk := func(s *model.Set, k spec.Kind, before bool) gen.BitmapSpec {
									var bs gen.BitmapSpec
									if neighbours && before {
										bs.Chunks = append(bs.Chunks, spec.Chunk{Key: key - 1, Kind: spec.Array, Ivs: []model.Iv{{Lo: 5, Hi: 5}}})
										bs.Shapes = append(bs.Shapes, "nb")
									}
									bs.Chunks = append(bs.Chunks, spec.Chunk{Key: key, Kind: k, Ivs: s.Intervals()})
									bs.Shapes = append(bs.Shapes, "tpl")
									if neighbours && !before {
										bs.Chunks = append(bs.Chunks, spec.Chunk{Key: key + 1, Kind: spec.Array, Ivs: []model.Iv{{Lo: 9, Hi: 9}}})
										bs.Shapes = append(bs.Shapes, "nb")
									}
									return bs
								}
								sa, sb := mk(tpl[na], ka, true), mk(tpl[nb], kb, false)
								for op := 0; op < 4; op++ {
									for _, inplace := range []bool{false, true} {
										la, err := live.Make(sa, fa)
										if err != nil {
											t.Fatal(err)
										}
										lb, err := live.Make(sb, fb)
										if err != nil {
											t.Fatal(err)
										}
										want := modelOp(op, la.Model, lb.Model)
										res := la.B
										if inplace {
											inplaceOp(op, la.B, lb.B)
										} else {
											res = staticOp(op, la.B, lb.B)
										}
										if d := live.Check(res, want); d != "" {
											t.Fatalf("matrix cell %s(%s as %s) %s %s(%s as %s) inplace=%v neighbours=%v: %s", na, ka, fa, opNames[op], nb, kb, fb, inplace, neighbours, d)
										}
										runtime.KeepAlive(la)
										runtime.KeepAlive(lb)
									}
								}
								inst.Count("C01", "matrix-cells")
								inst.Case("C01", true, fmt.Sprintf("matrix %s/%s %s/%s %s/%s nb=%v x 8 op-forms", na, nb, ka, kb, fa, fb, neighbours))
							}
						}
					}
				}
			}
		}
	}
}

func sortStrings(a []string) {
	for i := 1; i < len(a); i++ {
		for j := i; j > 0 && a[j] < a[j-1]; j-- {
			a[j], a[j-1] = a[j-1], a[j]
		}
	}
}
