package p32

import (
	"fmt"
	"runtime"
	"strings"
	"testing"

	"github.com/RoaringBitmap/roaring/v2"
	"pgregory.net/rapid"

	"verifharness/gen"
	"verifharness/inst"
	"verifharness/live"
	"verifharness/model"
)

// below returns #{v in m : v < x}.
func below(m *model.Set, x uint64) uint64 {
	if x == 0 {
		return 0
	}
	return m.Rank(x - 1)
}

// peekProgram drives an IntPeekable with a generated program and compares every
// observation with the ordered element list of want (through Select/Rank).
func peekProgram(t *rapid.T, label string, it roaring.IntPeekable, want *model.Set, argsFrom *model.Set, fail func(string, ...interface{})) (prog string, skipped bool) {
	n := want.Card()
	pos := uint64(0)
	var sb strings.Builder
	steps := rapid.IntRange(1, 40).Draw(t, label+".steps")
	for i := 0; i < steps; i++ {
		switch rapid.IntRange(0, 5).Draw(t, label+".act") {
		case 0:
			sb.WriteString("H ")
			if g := it.HasNext(); g != (pos < n) {
				fail("%s: HasNext=%v after consuming %d of %d [%s]", label, g, pos, n, sb.String())
			}
		case 1, 2:
			if pos < n {
				w, _ := want.Select(pos)
				if !it.HasNext() {
					fail("%s: HasNext=false after consuming %d of %d [%s]", label, pos, n, sb.String())
				}
				g := it.Next()
				sb.WriteString("N ")
				if uint64(g) != w {
					fail("%s: Next=%d want %d (element #%d) [%s]", label, g, w, pos, sb.String())
				}
				pos++
			}
		case 3:
			if pos < n {
				w, _ := want.Select(pos)
				if !it.HasNext() {
					fail("%s: HasNext=false after consuming %d of %d [%s]", label, pos, n, sb.String())
				}
				sb.WriteString("P ")
				if g := it.PeekNext(); uint64(g) != w {
					fail("%s: PeekNext=%d want %d (element #%d) [%s]", label, g, w, pos, sb.String())
				}
			}
		default:
			var mv uint32
			switch rapid.IntRange(0, 5).Draw(t, label+".advclass") {
			case 0: // around the current position
				cur := uint64(0)
				if pos < n {
					cur, _ = want.Select(pos)
				}
				d := int64(rapid.IntRange(-3, 70000).Draw(t, label+".delta"))
				x := int64(cur) + d
				if x < 0 {
					x = 0
				}
				if x > int64(model.Max32) {
					x = int64(model.Max32)
				}
				mv = uint32(x)
			case 1: // next chunk start
				cur := uint64(0)
				if pos < n {
					cur, _ = want.Select(pos)
				}
				x := (cur>>16 + uint64(rapid.IntRange(1, 3).Draw(t, label+".chunks"))) << 16
				if x > model.Max32 {
					x = model.Max32
				}
				mv = uint32(x)
			default:
				mv = gen.Value32(t, label+".m", argsFrom)
			}
			fmt.Fprintf(&sb, "A(%d) ", mv)
			it.AdvanceIfNeeded(mv)
			np := below(want, uint64(mv))
			if np > pos {
				if np-pos >= 1 {
					skipped = true
				}
				pos = np
			}
		}
	}
	// drain (bounded)
	limit := uint64(20000)
	for k := uint64(0); pos < n && k < limit; k++ {
		if !it.HasNext() {
			fail("%s: drain: HasNext=false after %d of %d [%s]", label, pos, n, sb.String())
		}
		w, _ := want.Select(pos)
		if g := it.Next(); uint64(g) != w {
			fail("%s: drain: Next=%d want %d (element #%d) [%s]", label, g, w, pos, sb.String())
		}
		pos++
	}
	if pos == n && it.HasNext() {
		fail("%s: HasNext=true after all %d elements were consumed [%s]", label, n, sb.String())
	}
	return sb.String(), skipped
}

var bufLens = []int{0, 1, 2, 3, 63, 64, 65, 4095, 4096, 4097, 65535, 65536, 65537}

func propC04(t *rapid.T) {
	bs := gen.Bitmap(t, "S", gen.KindsValid, false)
	f := live.DrawForm(t, "form")
	lv := mustMake(t, bs, f)
	b, m := lv.B, lv.Model
	n := m.Card()
	desc := fmt.Sprintf("%s as %s", bs, f)
	fail := func(format string, a ...interface{}) {
		t.Fatalf("%s\n  set=%s\n  [%s]", fmt.Sprintf(format, a...), m, desc)
	}
	kinds := map[uint8]bool{}
	for _, c := range b.VerifChunks() {
		kinds[c.Kind] = true
	}
	nontrivial := false
	var progs []string

	// forward iterator with a Peek/Advance program
	p, skipped := peekProgram(t, "Iterator", b.Iterator(), m, m, fail)
	progs = append(progs, "fwd:"+p)
	nontrivial = nontrivial || skipped

	// reverse iterator
	{
		rit := b.ReverseIterator()
		k := uint64(rapid.IntRange(0, 3000).Draw(t, "rev.take"))
		for i := uint64(0); i < k && i < n; i++ {
			if !rit.HasNext() {
				fail("ReverseIterator: HasNext=false after %d of %d", i, n)
			}
			w, _ := m.Select(n - 1 - i)
			if g := rit.Next(); uint64(g) != w {
				fail("ReverseIterator: Next=%d want %d (#%d from the top)", g, w, i)
			}
		}
		if k >= n && rit.HasNext() {
			fail("ReverseIterator: HasNext=true after all %d elements", n)
		}
	}

	// many iterator with a generated sequence of buffer lengths
	{
		use64 := rapid.Bool().Draw(t, "many.64")
		hs := uint64(rapid.SampledFrom([]uint64{0, 1 << 32, 0xFFFFFFFF << 32}).Draw(t, "many.hs"))
		mit := b.ManyIterator()
		pos := uint64(0)
		calls := rapid.IntRange(1, 12).Draw(t, "many.calls")
		var lens []int
		for c := 0; c < calls; c++ {
			var l int
			if rapid.Bool().Draw(t, "many.edge") {
				l = rapid.SampledFrom(bufLens).Draw(t, "many.len")
			} else {
				l = rapid.IntRange(0, 70000).Draw(t, "many.len")
			}
			lens = append(lens, l)
			wantN := uint64(l)
			if n-pos < wantN {
				wantN = n - pos
			}
			var got []uint64
			var k int
			if use64 {
				buf := make([]uint64, l)
				k = mit.NextMany64(hs, buf)
				got = buf[:min(k, l)]
			} else {
				buf := make([]uint32, l)
				k = mit.NextMany(buf)
				for _, v := range buf[:min(k, l)] {
					got = append(got, uint64(v))
				}
			}
			if uint64(k) != wantN {
				fail("ManyIterator(64=%v): call #%d with len %d returned %d, want %d (consumed %d of %d) lens=%v", use64, c, l, k, wantN, pos, n, lens)
			}
			if wantN > 0 {
				exp := m.Window(mustSel(m, pos), mustSel(m, pos+wantN-1)).ToSlice()
				for i, v := range got {
					w := exp[i]
					if use64 {
						w |= hs
					}
					if v != w {
						fail("ManyIterator(64=%v): call #%d value[%d]=%d want %d lens=%v", use64, c, i, v, w, lens)
					}
				}
				// a buffer boundary strictly inside a chunk
				if pos+wantN < n && mustSel(m, pos+wantN-1)>>16 == mustSel(m, pos+wantN)>>16 {
					nontrivial = true
				}
			}
			pos += wantN
		}
		progs = append(progs, fmt.Sprintf("many:%v", lens))
	}

	// Iterate with early stop: no order promised
	{
		stop := rapid.IntRange(1, 5000).Draw(t, "iterate.stop")
		seen := map[uint32]bool{}
		calls := 0
		b.Iterate(func(x uint32) bool {
			calls++
			if seen[x] {
				fail("Iterate: value %d delivered twice", x)
			}
			seen[x] = true
			if !m.Contains(uint64(x)) {
				fail("Iterate: delivered %d which is not an element", x)
			}
			return calls < stop
		})
		wc := uint64(stop)
		if n < wc {
			wc = n
		}
		if uint64(calls) != wc {
			fail("Iterate: %d callbacks, want %d (stop after %d, %d elements)", calls, wc, stop, n)
		}
	}
	// reusable iterator objects: Initialize on another bitmap in the middle of a traversal starts afresh
	{
		other := roaring.BitmapOf(3, 65536+7, 1<<20)
		other.AddRange(200000, 200300)
		other.RunOptimize()
		om := model.FromValues([]uint64{3, 65536 + 7, 1 << 20})
		om.AddRange(200000, 200299)
		k := rapid.IntRange(0, 40).Draw(t, "reuse.consumed")
		var it roaring.IntIterator
		it.Initialize(other)
		for i := 0; i < k && it.HasNext(); i++ {
			if i%3 == 0 {
				it.PeekNext()
			}
			it.Next()
		}
		if it.HasNext() {
			it.PeekNext()
		}
		it.Initialize(b)
		for i := uint64(0); i < n && i < 3000; i++ {
			if !it.HasNext() {
				fail("re-initialized IntIterator ends after %d of %d values", i, n)
			}
			if w := mustSel(m, i); uint64(it.PeekNext()) != w {
				fail("re-initialized IntIterator: PeekNext at position %d = %d want %d", i, it.PeekNext(), w)
			}
			if v := it.Next(); uint64(v) != mustSel(m, i) {
				fail("re-initialized IntIterator: value %d = %d want %d", i, v, mustSel(m, i))
			}
		}
		var rit roaring.IntReverseIterator
		rit.Initialize(other)
		for i := 0; i < k && rit.HasNext(); i++ {
			rit.Next()
		}
		rit.Initialize(b)
		for i := uint64(0); i < n && i < 3000; i++ {
			if !rit.HasNext() {
				fail("re-initialized IntReverseIterator ends after %d of %d values", i, n)
			}
			if v := rit.Next(); uint64(v) != mustSel(m, n-1-i) {
				fail("re-initialized IntReverseIterator: value %d = %d want %d", i, v, mustSel(m, n-1-i))
			}
		}
		var mit roaring.ManyIntIterator
		mit.Initialize(other)
		buf := make([]uint32, 1+k%17)
		mit.NextMany(buf)
		mit.Initialize(b)
		got := uint64(0)
		big := make([]uint32, 257)
		for got < n && got < 3000 {
			c := mit.NextMany(big)
			if c == 0 {
				fail("re-initialized ManyIntIterator ends after %d of %d values", got, n)
			}
			for j := 0; j < c; j++ {
				if uint64(big[j]) != mustSel(m, got+uint64(j)) {
					fail("re-initialized ManyIntIterator: value %d = %d want %d", got+uint64(j), big[j], mustSel(m, got+uint64(j)))
				}
			}
			got += uint64(c)
		}
		_ = om
	}
	// Values / Backward with break after k
	{
		// a sequence value may be ranged over more than once (each time from the start), also after an early break
		vseq, bseq := roaring.Values(b), roaring.Backward(b)
		for pass, k := range []uint64{uint64(rapid.IntRange(0, 3000).Draw(t, "values.take")), uint64(rapid.IntRange(0, 3000).Draw(t, "values.take2"))} {
			i := uint64(0)
			for v := range vseq {
				if i >= k {
					break
				}
				if w := mustSel(m, i); uint64(v) != w {
					fail("Values (traversal %d of the same sequence): item %d = %d want %d", pass+1, i, v, w)
				}
				i++
			}
			if w := min(k, n); i != w {
				fail("Values (traversal %d of the same sequence): yielded %d items, want %d", pass+1, i, w)
			}
			i = 0
			for v := range bseq {
				if i >= k {
					break
				}
				if w := mustSel(m, n-1-i); uint64(v) != w {
					fail("Backward (traversal %d of the same sequence): item %d = %d want %d", pass+1, i, v, w)
				}
				i++
			}
			if w := min(k, n); i != w {
				fail("Backward (traversal %d of the same sequence): yielded %d items, want %d", pass+1, i, w)
			}
		}
	}
	// Ranges: maximal, disjoint, non-adjacent, merged across chunks
	{
		ivs := m.Intervals()
		k := rapid.IntRange(0, len(ivs)+1).Draw(t, "ranges.take")
		rseq := b.Ranges()
		for pass := 0; pass < 2; pass++ {
			i := 0
			for s, e := range rseq {
				if i >= k {
					break
				}
				if i >= len(ivs) {
					fail("Ranges: extra range [%d,%d) after %d ranges", s, e, len(ivs))
				}
				if uint64(s) != ivs[i].Lo || e != ivs[i].Hi+1 {
					fail("Ranges (traversal %d): range #%d = [%d,%d) want [%d,%d)", pass+1, i, s, e, ivs[i].Lo, ivs[i].Hi+1)
				}
				i++
			}
			if w := min(k, len(ivs)); i != w {
				fail("Ranges (traversal %d): yielded %d ranges, want %d", pass+1, i, w)
			}
			k = len(ivs) + 1
		}
		for j := 1; j < len(ivs); j++ {
			if ivs[j-1].Hi>>16 != ivs[j-1].Lo>>16 {
				nontrivial = nontrivial || k > j // a range that spans a chunk border was checked
			}
		}
	}
	// UnsetIterator over [a,b)
	{
		a := gen.Value33(t, "unset.a", m, true)
		var e uint64
		switch rapid.IntRange(0, 3).Draw(t, "unset.wclass") {
		case 0:
			e = a + uint64(rapid.IntRange(0, 300).Draw(t, "unset.w"))
		case 1:
			e = a + uint64(rapid.IntRange(0, 300000).Draw(t, "unset.w"))
		case 2:
			e = model.Max32 + 1
			if e-a > 300000 {
				a = e - uint64(rapid.IntRange(0, 300000).Draw(t, "unset.fromend"))
			}
		default:
			e = (a>>16+uint64(rapid.IntRange(1, 3).Draw(t, "unset.chunks")))<<16 + uint64(rapid.IntRange(0, 2).Draw(t, "unset.over"))
		}
		if e > model.Max32+1 {
			e = model.Max32 + 1
		}
		comp := model.New()
		if e > a {
			comp = m.Complement(a, e-1)
		}
		p, _ := peekProgram(t, fmt.Sprintf("UnsetIterator(%d,%d)", a, e), b.UnsetIterator(a, e), comp, m, fail)
		progs = append(progs, fmt.Sprintf("unset[%d,%d):%s", a, e, p))
		inst.Count("C04", "unset-window")
		// Unset(b,min,max) is the inclusive-range wrapper
		if e > a && e-a <= 5000 {
			i := uint64(0)
			for v := range roaring.Unset(b, uint32(a), uint32(e-1)) {
				w, ok := comp.Select(i)
				if !ok || uint64(v) != w {
					fail("Unset(%d,%d): item %d = %d want %d (ok=%v)", a, e-1, i, v, w, ok)
				}
				i++
			}
			if i != comp.Card() {
				fail("Unset(%d,%d): yielded %d values, want %d", a, e-1, i, comp.Card())
			}
		}
	}
	runtime.KeepAlive(lv)
	inst.Count("C04", "form:"+f.String())
	inst.Case("C04", (len(bs.Chunks) >= 2 || len(kinds) >= 2) && nontrivial, desc+" "+strings.Join(progs, " | "))
}

func mustSel(m *model.Set, i uint64) uint64 {
	v, ok := m.Select(i)
	if !ok {
		panic("harness: select out of range")
	}
	return v
}

func TestC04(t *testing.T) { rapid.Check(t, propC04) }
