package p32

import (
	"github.com/RoaringBitmap/roaring/v2"
	"fmt"
	"runtime"
	"testing"

	"pgregory.net/rapid"

	"verifharness/gen"
	"verifharness/inst"
	"verifharness/live"
	"verifharness/model"
	"verifharness/spec"
)

// adjacentSpec builds runs of neighbouring chunks that are full, or full up to
// one of their edges: exactly the layouts where a neighbour query has to walk
// into the next / previous chunk.
func adjacentSpec(t *rapid.T) gen.BitmapSpec {
	s := model.New()
	groups := rapid.IntRange(1, 3).Draw(t, "adj.groups")
	for g := 0; g < groups; g++ {
		k0 := rapid.SampledFrom([]int{0, 1, 2, 7, 0x7FFE, 0xFFFA, 0xFFFC, 0xFFFE, 0xFFFF}).Draw(t, "adj.k0")
		n := rapid.IntRange(1, 5).Draw(t, "adj.n")
		for i := 0; i < n && k0+i <= 0xFFFF; i++ {
			base := uint64(k0+i) << 16
			switch rapid.IntRange(0, 6).Draw(t, "adj.shape") {
			case 0, 1:
				s.AddRange(base, base+65535)
			case 2:
				s.AddRange(base+gen.Low(t, "adj.from"), base+65535)
			case 3:
				s.AddRange(base, base+gen.Low(t, "adj.to"))
			case 4:
				s.AddRange(base, base+uint64(rapid.IntRange(0, 300).Draw(t, "adj.lo")))
				s.AddRange(base+65535-uint64(rapid.IntRange(0, 300).Draw(t, "adj.hi")), base+65535)
			case 5:
				s.Add(base + gen.Low(t, "adj.v"))
			default:
				hole := base + gen.Low(t, "adj.hole")
				s.AddRange(base, base+65535)
				s.Remove(hole)
			}
		}
	}
	return gen.FromSet(t, "adj", s, gen.KindsValid)
}

func propC15(t *rapid.T) {
	var bs gen.BitmapSpec
	layout := "general"
	if rapid.Bool().Draw(t, "adjacent") {
		bs = adjacentSpec(t)
		layout = "adjacent-full-chunks"
	} else {
		bs = gen.Bitmap(t, "S", gen.KindsValid, false)
	}
	f := live.DrawForm(t, "form")
	lv := mustMake(t, bs, f)
	b, m := lv.B, lv.Model
	desc := fmt.Sprintf("%s as %s", bs, f)
	fail := func(format string, a ...interface{}) {
		t.Fatalf("%s\n  set=%s\n  [%s]", fmt.Sprintf(format, a...), m, desc)
	}
	conv := func(v uint64, ok bool) int64 {
		if !ok {
			return -1
		}
		return int64(v)
	}
	nontrivial := false
	args := ""
	for i := 0; i < 24; i++ {
		if i == 16 {
			// second phase: the same bitmap after a few in-place changes (whatever an earlier query remembered is stale now)
			if m.IsEmpty() {
				break
			}
			for j := 0; j < rapid.IntRange(1, 3).Draw(t, "nchanges"); j++ {
				y := uint64(gen.Value32(t, "cv", m))
				switch rapid.IntRange(0, 4).Draw(t, "change") {
				case 0:
					// union with a few values below / inside an existing chunk
					base := y &^ 0xFFFF
					vals := []uint32{uint32(base + gen.Low(t, "lowA")), uint32(base + gen.Low(t, "lowB")), uint32(y)}
					b.Or(roaring.BitmapOf(vals...))
					m.AddValues32(vals)
					args += fmt.Sprintf(" |Or%v|", vals)
				case 1:
					e := y + uint64(rapid.SampledFrom([]int{1, 64, 3000, 65536}).Draw(t, "fw"))
					if e > model.Max32+1 {
						e = model.Max32 + 1
					}
					b.Flip(y, e)
					m.FlipRange(y, e-1)
					args += fmt.Sprintf(" |Flip(%d,%d)|", y, e)
				case 2:
					b.Remove(uint32(y))
					m.Remove(y)
					args += fmt.Sprintf(" |Remove(%d)|", y)
				case 3:
					o := roaring.BitmapOf(uint32(y), uint32(y)^1, uint32(y)^64)
					b.Xor(o)
					for _, v := range []uint64{y, y ^ 1, y ^ 64} {
						if m.Contains(v) {
							m.Remove(v)
						} else {
							m.Add(v)
						}
					}
					args += fmt.Sprintf(" |Xor{%d,%d,%d}|", y, y^1, y^64)
				default:
					e := y + uint64(rapid.SampledFrom([]int{1, 100, 70000}).Draw(t, "rw"))
					if e > model.Max32+1 {
						e = model.Max32 + 1
					}
					b.RemoveRange(y, e)
					m.RemoveRange(y, e-1)
					args += fmt.Sprintf(" |RemoveRange(%d,%d)|", y, e)
				}
			}
			inst.Count("C15", "second-phase-after-changes")
		}
		x := gen.Value32(t, "t", m)
		args += fmt.Sprintf(" %d", x)
		ux := uint64(x)
		chunkExists := !m.Window(ux&^0xFFFF, ux|0xFFFF).IsEmpty()
		type q struct {
			name string
			got  int64
			want int64
		}
		qs := []q{
			{"NextValue", b.NextValue(x), conv(m.NextPresent(ux))},
			{"PreviousValue", b.PreviousValue(x), conv(m.PrevPresent(ux))},
			{"NextAbsentValue", b.NextAbsentValue(x), conv(m.NextAbsent(ux, model.Max32))},
			{"PreviousAbsentValue", b.PreviousAbsentValue(x), conv(m.PrevAbsent(ux))},
		}
		for _, c := range qs {
			if c.got != c.want {
				fail("%s(%d)=%d want %d", c.name, x, c.got, c.want)
			}
			if c.want >= 0 && uint64(c.want)>>16 != ux>>16 {
				nontrivial = true // the answer lies in another chunk than the target
				inst.Count("C15", "answer-in-other-chunk:"+c.name)
			}
			if c.want < 0 {
				inst.Count("C15", "answer-none:"+c.name)
			}
		}
		if chunkExists {
			nontrivial = true
		} else {
			inst.Count("C15", "target-in-absent-chunk")
		}
	}
	runtime.KeepAlive(lv)
	inst.Count("C15", "layout:"+layout)
	for _, c := range bs.Chunks {
		if c.Kind == spec.Run {
			inst.Count("C15", "chunk:run")
		} else {
			inst.Count("C15", "chunk:"+c.Kind.String())
		}
	}
	inst.Case("C15", nontrivial && !m.IsEmpty(), desc+" targets:"+args)
}

func TestC15(t *testing.T) { rapid.Check(t, propC15) }
