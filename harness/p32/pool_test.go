package p32

import (
	"bytes"
	"fmt"
	"runtime"
	"sort"
	"strings"
	"testing"

	"github.com/RoaringBitmap/roaring/v2"
	"pgregory.net/rapid"

	"verifharness/gen"
	"verifharness/inst"
	"verifharness/live"
	"verifharness/model"
	"verifharness/spec"
)

// The pool machine: up to 6 live bitmaps, each with its own model. Rules derive
// new bitmaps from existing ones, combine them in place, mutate them where
// their chunk keys overlap, and change their maintenance state. It is run in
// three modes that differ only in the invariant checked after every step:
//   C07: every member still equals its own model (nobody else's contents changed)
//   C09: every member passes Validate() and an independent structural walk
//   C14: every member's serialized size respects the documented bounds

type member struct {
	b       *roaring.Bitmap
	m       *model.Set
	tainted bool // zero-copy lineage: SetCopyOnWrite must not be called
	id      int
}

type poolMode int

const (
	modeC07 poolMode = iota
	modeC09
	modeC14
)

type pool struct {
	mode             poolMode
	prop             string
	ms               []*member
	keep             []interface{}
	ops              []string
	nextID           int
	derived          map[[2]int]bool // (child,parent) pairs
	hitDerivedShared bool
	kindChange       bool
	sig              string
}

func (p *pool) log(f string, a ...interface{}) { p.ops = append(p.ops, fmt.Sprintf(f, a...)) }

func (p *pool) history() string { return strings.Join(p.ops, "; ") }

func (p *pool) add(b *roaring.Bitmap, m *model.Set, tainted bool, parents ...*member) *member {
	nm := &member{b: b, m: m, tainted: tainted, id: p.nextID}
	p.nextID++
	for _, par := range parents {
		p.derived[[2]int{nm.id, par.id}] = true
		if par.tainted {
			nm.tainted = true
		}
	}
	if len(p.ms) >= 6 {
		// replace the oldest member
		p.ms = append(p.ms[1:], nm)
	} else {
		p.ms = append(p.ms, nm)
	}
	return nm
}

func (p *pool) pick(t *rapid.T, label string) *member {
	x := p.ms[rapid.IntRange(0, len(p.ms)-1).Draw(t, label)]
	if x.m.IsEmpty() && len(p.ms) > 1 {
		// one more try: operations on empty members teach little
		x = p.ms[rapid.IntRange(0, len(p.ms)-1).Draw(t, label+".retry")]
	}
	return x
}

func (p *pool) pickList(t *rapid.T, label string, min int) []*member {
	n := rapid.IntRange(min, 5).Draw(t, label+".n")
	out := make([]*member, n)
	for i := range out {
		out[i] = p.pick(t, label)
	}
	return out
}

func ids(ms []*member) string {
	s := make([]string, len(ms))
	for i, m := range ms {
		s[i] = fmt.Sprintf("#%d", m.id)
	}
	return "[" + strings.Join(s, ",") + "]"
}

// sharedKeyValue draws a value inside a chunk key that x has in common with another member (if any).
func (p *pool) sharedKeyValue(t *rapid.T, x *member) (uint32, bool) {
	cnt := map[uint16]int{}
	for _, o := range p.ms {
		for _, k := range o.m.Keys16() {
			cnt[k]++
		}
	}
	var cand []uint16
	for _, k := range x.m.Keys16() {
		if cnt[k] >= 2 {
			cand = append(cand, k)
		}
	}
	if len(cand) == 0 || rapid.IntRange(0, 4).Draw(t, "anykey") == 0 {
		return gen.Value32(t, "v", x.m), false
	}
	sort.Slice(cand, func(i, j int) bool { return cand[i] < cand[j] })
	k := cand[rapid.IntRange(0, len(cand)-1).Draw(t, "sharedkey")]
	base := uint64(k) << 16
	// an element of that chunk, or any low value
	if rapid.Bool().Draw(t, "element") {
		w := x.m.Window(base, base+65535)
		v, _ := w.Select(uint64(rapid.Uint64Range(0, w.Card()-1).Draw(t, "which")))
		return uint32(v), true
	}
	return uint32(base + gen.Low(t, "low")), true
}

// pickChunk prefers (member, key) pairs whose chunk is currently a run container with
// several runs (that is where representation maintenance can go wrong); falls back to any chunk.
func (p *pool) pickChunk(t *rapid.T) (*member, uint64, bool) {
	type mk struct {
		x *member
		k uint16
	}
	var runs, all []mk
	for _, x := range p.ms {
		ch := x.b.VerifChunks()
		if len(ch) > 64 {
			ch = ch[:64]
		}
		for _, c := range ch {
			all = append(all, mk{x, c.Key})
			if c.Kind == 3 && c.Runs >= 4 {
				runs = append(runs, mk{x, c.Key})
			}
		}
	}
	if len(all) == 0 {
		return nil, 0, false
	}
	if len(runs) > 0 && rapid.IntRange(0, 3).Draw(t, "preferRuns") != 0 {
		c := runs[rapid.IntRange(0, len(runs)-1).Draw(t, "runchunk")]
		return c.x, uint64(c.k), true
	}
	c := all[rapid.IntRange(0, len(all)-1).Draw(t, "chunk")]
	return c.x, uint64(c.k), true
}

func (p *pool) newMember(t *rapid.T) {
	bs := gen.Bitmap(t, "new", gen.KindsValid, false)
	if p.mode == modeC14 && rapid.IntRange(0, 3).Draw(t, "tightUniverse") != 0 {
		// the size bound only bites when the universe is tight: chunk keys 0..n-1
		n := rapid.IntRange(1, 6).Draw(t, "tightN")
		keys := make([]uint16, n)
		for i := range keys {
			keys[i] = uint16(i)
		}
		bs = gen.BitmapWithKeys(t, "new", keys, gen.KindsValid)
	}
	if len(p.ms) > 0 && rapid.Bool().Draw(t, "related") {
		// same keys as an existing member so that chunks meet
		o := p.pick(t, "like")
		if o.m.Card() < 400000 {
			bs, _ = gen.Related(t, "like", gen.FromSet(t, "likesrc", o.m, gen.KindsValid), gen.KindsValid)
		}
	}
	f := live.DrawForm(t, "form")
	lv := mustMake(t, bs, f)
	p.keep = append(p.keep, lv)
	tainted := f == live.Buffer || f == live.Unsafe || f == live.Frozen
	nm := p.add(lv.B, lv.Model, tainted)
	p.log("#%d=new(%s as %s)", nm.id, bs, f)
}

func aggModel(kind string, ms []*member) *model.Set {
	acc := model.New()
	for i, x := range ms {
		switch kind {
		case "or":
			acc = model.Or(acc, x.m)
		case "xor":
			acc = model.Xor(acc, x.m)
		case "and":
			if i == 0 {
				acc = x.m.Clone()
			} else {
				acc = model.And(acc, x.m)
			}
		}
	}
	return acc
}

func bitmapsOf(ms []*member) []*roaring.Bitmap {
	out := make([]*roaring.Bitmap, len(ms))
	for i, m := range ms {
		out[i] = m.b
	}
	return out
}

func (p *pool) rules(t *rapid.T) map[string]func(*rapid.T) {
	fail := func(format string, a ...interface{}) {
		t.Fatalf("%s\n  history: %s", fmt.Sprintf(format, a...), p.history())
	}
	callAgg := func(name string, f func(bs ...*roaring.Bitmap) *roaring.Bitmap, kind string, min int) func(*rapid.T) {
		return func(t *rapid.T) {
			list := p.pickList(t, "list", min)
			args := bitmapsOf(list)
			backing := append([]*roaring.Bitmap(nil), args...)
			res := f(args...)
			for i := range backing {
				if args[i] != backing[i] {
					p.log("%s(%s)", name, ids(list))
					fail("%s rewrote the caller's argument slice: entry %d now points to another bitmap", name, i)
				}
			}
			for _, x := range list {
				if res == x.b {
					p.log("%s(%s)", name, ids(list))
					if p.mode == modeC07 {
						fail("%s returned one of its inputs (#%d) instead of a new bitmap", name, x.id)
					}
					res = res.Clone()
				}
			}
			nm := p.add(res, aggModel(kind, list), false, list...)
			p.log("#%d=%s(%s)", nm.id, name, ids(list))
		}
	}
	workers := func(t *rapid.T) int { return rapid.SampledFrom([]int{0, 1, 2, 3, 4, 7}).Draw(t, "workers") }
	return map[string]func(*rapid.T){
		"new": func(t *rapid.T) { p.newMember(t) },
		"Clone": func(t *rapid.T) {
			x := p.pick(t, "x")
			nm := p.add(x.b.Clone(), x.m.Clone(), false, x)
			p.log("#%d=Clone(#%d)", nm.id, x.id)
		},
		"static": func(t *rapid.T) {
			x, y := p.pick(t, "x"), p.pick(t, "y")
			op := rapid.IntRange(0, 3).Draw(t, "op")
			nm := p.add(staticOp(op, x.b, y.b), modelOp(op, x.m, y.m), false, x, y)
			p.log("#%d=%s(#%d,#%d)", nm.id, opNames[op], x.id, y.id)
		},
		"staticFlip": func(t *rapid.T) {
			x := p.pick(t, "x")
			s, e := drawRange(t, "r", x.m)
			m := x.m.Clone()
			if e > s {
				m.FlipRange(s, e-1)
			}
			nm := p.add(roaring.Flip(x.b, s, e), m, false, x)
			p.log("#%d=Flip(#%d,%d,%d)", nm.id, x.id, s, e)
		},
		"AddOffset": func(t *rapid.T) {
			x := p.pick(t, "x")
			if x.m.Card() > 150000 {
				t.Skip("AddOffset of run-heavy big bitmaps is quadratic in the library; covered by C16")
			}
			d := rapid.SampledFrom([]int64{-65536, -30000, -1, 1, 30000, 65535, 65536, 65537, 131072}).Draw(t, "d")
			nm := p.add(roaring.AddOffset64(x.b, d), x.m.Shift(d, model.Max32), false, x)
			p.log("#%d=AddOffset64(#%d,%d)", nm.id, x.id, d)
		},
		"FastOr":  callAgg("FastOr", roaring.FastOr, "or", 0),
		"HeapOr":  callAgg("HeapOr", roaring.HeapOr, "or", 0),
		"HeapXor": callAgg("HeapXor", roaring.HeapXor, "xor", 0),
		"FastAnd": callAgg("FastAnd", roaring.FastAnd, "and", 1),
		"ParOr": func(t *rapid.T) {
			w := workers(t)
			callAgg(fmt.Sprintf("ParOr[%d]", w), func(bs ...*roaring.Bitmap) *roaring.Bitmap { return roaring.ParOr(w, bs...) }, "or", 0)(t)
		},
		"ParHeapOr": func(t *rapid.T) {
			w := workers(t)
			callAgg(fmt.Sprintf("ParHeapOr[%d]", w), func(bs ...*roaring.Bitmap) *roaring.Bitmap { return roaring.ParHeapOr(w, bs...) }, "or", 0)(t)
		},
		"ParAnd": func(t *rapid.T) {
			w := workers(t)
			callAgg(fmt.Sprintf("ParAnd[%d]", w), func(bs ...*roaring.Bitmap) *roaring.Bitmap { return roaring.ParAnd(w, bs...) }, "and", 1)(t)
		},
		"inplace": func(t *rapid.T) {
			x, y := p.pick(t, "x"), p.pick(t, "y")
			op := rapid.IntRange(0, 3).Draw(t, "op")
			p.log("#%d.%s(#%d)", x.id, opNames[op], y.id)
			nm := modelOp(op, x.m, y.m)
			inplaceOp(op, x.b, y.b)
			x.m = nm
			if y.tainted {
				x.tainted = true
			}
			p.derived[[2]int{x.id, y.id}] = true
		},
		"AndAny": func(t *rapid.T) {
			x := p.pick(t, "x")
			list := p.pickList(t, "list", 1)
			p.log("#%d.AndAny(%s)", x.id, ids(list))
			nm := model.And(x.m, aggModel("or", list))
			args := bitmapsOf(list)
			backing := append([]*roaring.Bitmap(nil), args...)
			x.b.AndAny(args...)
			for i := range backing {
				if args[i] != backing[i] {
					fail("AndAny rewrote the caller's argument slice at %d", i)
				}
			}
			x.m = nm
			for _, y := range list {
				if y.tainted {
					x.tainted = true
				}
				p.derived[[2]int{x.id, y.id}] = true
			}
		},
		"mutate": func(t *rapid.T) {
			x := p.pick(t, "x")
			v, shared := p.sharedKeyValue(t, x)
			if shared {
				for _, o := range p.ms {
					if o != x && (p.derived[[2]int{x.id, o.id}] || p.derived[[2]int{o.id, x.id}]) && !o.m.Window(uint64(v)&^0xFFFF, uint64(v)|0xFFFF).IsEmpty() {
						p.hitDerivedShared = true
					}
				}
			}
			e := uint64(v) + uint64(rapid.SampledFrom([]int{1, 2, 64, 3000, 65536, 70000}).Draw(t, "w"))
			if e > model.Max32+1 {
				e = model.Max32 + 1
			}
			switch rapid.IntRange(0, 7).Draw(t, "mop") {
			case 6:
				p.log("#%d.CheckedAdd(%d)", x.id, v)
				if got, want := x.b.CheckedAdd(v), !x.m.Contains(uint64(v)); got != want {
					fail("#%d.CheckedAdd(%d)=%v, membership changed=%v", x.id, v, got, want)
				}
				x.m.Add(uint64(v))
			case 7:
				p.log("#%d.CheckedRemove(%d)", x.id, v)
				if got, want := x.b.CheckedRemove(v), x.m.Contains(uint64(v)); got != want {
					fail("#%d.CheckedRemove(%d)=%v, membership changed=%v", x.id, v, got, want)
				}
				x.m.Remove(uint64(v))
			case 0:
				p.log("#%d.Add(%d)", x.id, v)
				if v <= 0x7FFFFFFF && rapid.Bool().Draw(t, "asInt") {
					x.b.AddInt(int(v))
				} else {
					x.b.Add(v)
				}
				x.m.Add(uint64(v))
			case 1:
				p.log("#%d.Remove(%d)", x.id, v)
				x.b.Remove(v)
				x.m.Remove(uint64(v))
			case 2:
				p.log("#%d.AddRange(%d,%d)", x.id, v, e)
				x.b.AddRange(uint64(v), e)
				x.m.AddRange(uint64(v), e-1)
			case 3:
				p.log("#%d.RemoveRange(%d,%d)", x.id, v, e)
				x.b.RemoveRange(uint64(v), e)
				x.m.RemoveRange(uint64(v), e-1)
			case 4:
				p.log("#%d.Flip(%d,%d)", x.id, v, e)
				x.b.Flip(uint64(v), e)
				x.m.FlipRange(uint64(v), e-1)
			default:
				vals := []uint32{v, v + 1, v ^ 0x10000, v + 64}
				p.log("#%d.AddMany(%v)", x.id, vals)
				x.b.AddMany(vals)
				x.m.AddValues32(vals)
			}
		},
		"trimRuns": func(t *rapid.T) {
			// the same micro-edit applied to every run of one chunk: trim each run to its
			// first `keep` values by point removals (never splits a run)
			x, k, ok := p.pickChunk(t)
			if !ok {
				t.Skip("no chunk")
			}
			w := x.m.Window(k<<16, k<<16+65535)
			keep := uint64(rapid.IntRange(1, 2).Draw(t, "keep"))
			budget := 4000
			checked := rapid.Bool().Draw(t, "checked")
			p.log("#%d.trimRuns(key=%d keep=%d via Remove, checked=%v)", x.id, k, keep, checked)
			for _, iv := range w.Intervals() {
				for v := iv.Hi; v >= iv.Lo+keep && budget > 0; v-- {
					if checked {
						if !x.b.CheckedRemove(uint32(v)) {
							fail("#%d.CheckedRemove(%d) of a present value returned false", x.id, v)
						}
					} else {
						x.b.Remove(uint32(v))
					}
					x.m.Remove(v)
					budget--
				}
			}
		},
		"andRange": func(t *rapid.T) {
			// intersection with one interval (a single-run operand) placed inside a chunk of x
			x, k, ok := p.pickChunk(t)
			if !ok {
				t.Skip("no chunk")
			}
			w := x.m.Window(k<<16, k<<16+65535)
			ivs := w.Intervals()
			if len(ivs) == 0 {
				t.Skip("chunk vanished")
			}
			// start right after one of the chunk's intervals, or at an edge value
			lo := k<<16 + gen.Low(t, "lo")
			if rapid.Bool().Draw(t, "afterInterval") {
				lo = ivs[rapid.IntRange(0, len(ivs)-1).Draw(t, "iv")].Hi + 1
			}
			hi := k<<16 + 65535 + uint64(rapid.SampledFrom([]int{0, 1, 65536}).Draw(t, "over"))
			if rapid.Bool().Draw(t, "short") {
				hi = lo + uint64(rapid.IntRange(0, 30000).Draw(t, "len"))
			}
			if hi > model.Max32 {
				hi = model.Max32
			}
			if lo > hi {
				lo = hi
			}
			mask := roaring.New()
			mask.AddRange(lo, hi+1)
			if rapid.Bool().Draw(t, "inplace") {
				p.log("#%d.And(range[%d,%d])", x.id, lo, hi)
				x.b.And(mask)
				x.m = x.m.Window(lo, hi)
			} else {
				nm := p.add(roaring.And(x.b, mask), x.m.Window(lo, hi), false, x)
				p.log("#%d=And(#%d,range[%d,%d])", nm.id, x.id, lo, hi)
			}
		},
		"comb": func(t *rapid.T) {
			// combine one chunk with a comb (every s-th value over a window): splits runs
			x, k, ok := p.pickChunk(t)
			if !ok {
				t.Skip("no chunk")
			}
			step := uint64(rapid.IntRange(2, 9).Draw(t, "step"))
			lo := k<<16 + gen.Low(t, "lo")
			n := rapid.IntRange(1, 6000).Draw(t, "teeth")
			vals := make([]uint32, 0, n)
			for i, v := 0, lo; i < n && v <= k<<16+65535; i, v = i+1, v+step {
				vals = append(vals, uint32(v))
			}
			comb := roaring.BitmapOf(vals...)
			cm := model.FromValues32(vals)
			op := rapid.SampledFrom([]int{0, 2, 3}).Draw(t, "op")
			if rapid.Bool().Draw(t, "inplace") {
				p.log("#%d.%s(comb lo=%d step=%d n=%d)", x.id, opNames[op], lo, step, len(vals))
				nm := modelOp(op, x.m, cm)
				inplaceOp(op, x.b, comb)
				x.m = nm
			} else {
				nm := p.add(staticOp(op, x.b, comb), modelOp(op, x.m, cm), false, x)
				p.log("#%d=%s(#%d,comb lo=%d step=%d n=%d)", nm.id, opNames[op], x.id, lo, step, len(vals))
			}
		},
		"cowClone": func(t *rapid.T) {
			x := p.pick(t, "x")
			if x.tainted {
				t.Skip("documented misuse on zero-copy lineage")
			}
			x.b.SetCopyOnWrite(true)
			nm := p.add(x.b.Clone(), x.m.Clone(), false, x)
			p.log("#%d.SetCopyOnWrite(true); #%d=Clone(#%d)", x.id, nm.id, x.id)
		},
		"cowMergeClone": func(t *rapid.T) {
			// copy-on-write bitmap: clone, then an in-place union / symmetric difference with a bitmap whose chunk keys
			// interleave with its own (leading and inner argument-only keys), then clone again - both clones join the pool
			x := p.pick(t, "x")
			if x.tainted || x.m.Card() > 400000 {
				t.Skip("zero-copy lineage or too big")
			}
			x.b.SetCopyOnWrite(true)
			c1 := p.add(x.b.Clone(), x.m.Clone(), false, x)
			ym := model.New()
			keys := x.m.Keys16()
			for i, k := range keys {
				if k > 0 && (i == 0 || keys[i-1] != k-1) && rapid.IntRange(0, 2).Draw(t, "before") != 0 {
					ym.Add(uint64(k-1)<<16 + 11)
				}
				if rapid.IntRange(0, 2).Draw(t, "same") == 0 {
					ym.AddRange(uint64(k)<<16+40000, uint64(k)<<16+40100)
				}
			}
			if ym.IsEmpty() {
				ym.Add(5)
			}
			y := roaring.New()
			for _, iv := range ym.Intervals() {
				y.AddRange(iv.Lo, iv.Hi+1)
			}
			op := rapid.SampledFrom([]int{1, 2}).Draw(t, "op")
			nm := modelOp(op, x.m, ym)
			inplaceOp(op, x.b, y)
			x.m = nm
			c2 := p.add(x.b.Clone(), x.m.Clone(), false, x)
			p.log("#%d.SetCopyOnWrite(true); #%d=Clone(#%d); #%d.%s(interleaved keys %s); #%d=Clone(#%d)", x.id, c1.id, x.id, x.id, opNames[op], ym, c2.id, x.id)
		},
		"dropChunks": func(t *rapid.T) {
			// a range removal that deletes whole chunks (leading or interior) and ends at the edge of /
			// strictly inside a later chunk: the chunk table and its flags have to shift
			x := p.pick(t, "x")
			keys := x.m.Keys16()
			if len(keys) < 2 {
				t.Skip("needs two chunks")
			}
			i := rapid.IntRange(0, len(keys)-2).Draw(t, "from")
			j := rapid.IntRange(i+1, len(keys)-1).Draw(t, "to")
			s := uint64(keys[i]) << 16
			switch rapid.IntRange(0, 2).Draw(t, "startAt") {
			case 1:
				s = 0
			case 2:
				s += gen.Low(t, "startLow")
			}
			e := uint64(keys[j])<<16 + uint64(rapid.SampledFrom([]int{0, 1, 100, 65535, 65536}).Draw(t, "into"))
			if rapid.IntRange(0, 2).Draw(t, "insideElement") == 0 {
				w := x.m.Window(uint64(keys[j])<<16, uint64(keys[j])<<16+65535)
				v, _ := w.Select(uint64(rapid.Uint64Range(0, w.Card()-1).Draw(t, "el")))
				e = v
			}
			if e > model.Max32+1 {
				e = model.Max32 + 1
			}
			p.log("#%d.RemoveRange(%d,%d)", x.id, s, e)
			x.b.RemoveRange(s, e)
			if e > s {
				x.m.RemoveRange(s, e-1)
			}
		},
		"cutLongRun": func(t *rapid.T) {
			// a range removal (inside one chunk, or starting in an earlier chunk) that ends exactly
			// behind the longest interval of a chunk: what is left of a run chunk may only be scattered values
			x, k, ok := p.pickChunk(t)
			if !ok {
				t.Skip("no chunk")
			}
			ivs := x.m.Window(k<<16, k<<16+65535).Intervals()
			if len(ivs) == 0 {
				t.Skip("chunk vanished")
			}
			best := ivs[0]
			for _, iv := range ivs {
				if iv.Hi-iv.Lo > best.Hi-best.Lo {
					best = iv
				}
			}
			e := best.Hi + 1
			s := best.Lo
			switch rapid.IntRange(0, 3).Draw(t, "from") {
			case 0:
				s = k << 16
			case 1:
				s = 0
			case 2:
				if keys := x.m.Keys16(); len(keys) > 0 {
					s = uint64(keys[rapid.IntRange(0, len(keys)-1).Draw(t, "fromKey")])<<16 + gen.Low(t, "fromLow")
				}
			}
			if s >= e {
				s = best.Lo
			}
			if rapid.Bool().Draw(t, "flip") && s == best.Lo {
				p.log("#%d.Flip(%d,%d)", x.id, s, e)
				x.b.Flip(s, e)
				x.m.FlipRange(s, e-1)
			} else {
				p.log("#%d.RemoveRange(%d,%d)", x.id, s, e)
				x.b.RemoveRange(s, e)
				x.m.RemoveRange(s, e-1)
			}
		},
		"landOnThreshold": func(t *rapid.T) {
			// shrink one chunk to exactly 4095 / 4096 / 4097 values (the array/bitmap border) by a drawn route
			var cand []struct {
				x *member
				k uint64
			}
			for _, x := range p.ms {
				for _, c := range x.b.VerifChunks() {
					if c.Card > 4097 && len(cand) < 32 {
						cand = append(cand, struct {
							x *member
							k uint64
						}{x, uint64(c.Key)})
					}
				}
			}
			if len(cand) == 0 {
				t.Skip("no chunk above the threshold")
			}
			c := cand[rapid.IntRange(0, len(cand)-1).Draw(t, "which")]
			x, k := c.x, c.k
			w := x.m.Window(k<<16, k<<16+65535)
			target := uint64(rapid.SampledFrom([]int{4095, 4096, 4097}).Draw(t, "target"))
			excess := w.Card() - target
			route := rapid.IntRange(0, 5).Draw(t, "route")
			if route >= 2 && route <= 4 && excess > 4096 {
				route = rapid.IntRange(0, 1).Draw(t, "route2")
			}
			switch route {
			case 0: // drop the tail
				v, _ := w.Select(target)
				p.log("#%d.RemoveRange(%d,%d) leaving %d values in chunk %d", x.id, v, k<<16+65536, target, k)
				x.b.RemoveRange(v, k<<16+65536)
				x.m.RemoveRange(v, k<<16+65535)
			case 1: // drop the head
				v, _ := w.Select(excess)
				p.log("#%d.RemoveRange(%d,%d) leaving %d values in chunk %d", x.id, k<<16, v, target, k)
				x.b.RemoveRange(k<<16, v)
				x.m.RemoveRange(k<<16, v-1)
			default:
				// the victims: every step-th element, exactly `excess` of them
				step := w.Card() / excess
				vals := make([]uint32, 0, excess)
				for i := uint64(0); i < excess; i++ {
					v, _ := w.Select(i * step)
					vals = append(vals, uint32(v))
				}
				mask := roaring.BitmapOf(vals...)
				mm := model.FromValues32(vals)
				switch route {
				case 2:
					checked := rapid.Bool().Draw(t, "checked")
					p.log("#%d: %d point removals (checked=%v) leaving %d values in chunk %d", x.id, len(vals), checked, target, k)
					for _, v := range vals {
						if checked {
							x.b.CheckedRemove(v)
						} else {
							x.b.Remove(v)
						}
					}
					x.m = model.AndNot(x.m, mm)
				case 3:
					p.log("#%d.AndNot(%d scattered values) leaving %d values in chunk %d", x.id, len(vals), target, k)
					x.b.AndNot(mask)
					x.m = model.AndNot(x.m, mm)
				case 4:
					nm := p.add(roaring.AndNot(x.b, mask), model.AndNot(x.m, mm), false, x)
					p.log("#%d=AndNot(#%d, %d scattered values) leaving %d values in chunk %d", nm.id, x.id, len(vals), target, k)
				default:
					p.log("#%d.Xor(%d scattered members) leaving %d values in chunk %d", x.id, len(vals), target, k)
					x.b.Xor(mask)
					x.m = model.AndNot(x.m, mm)
				}
			}
		},
		"orInterleavedSparse": func(t *rapid.T) {
			// in-place union of a run chunk with a run chunk that repeats its long intervals and carries its
			// isolated values moved by one: each side is run-efficient, their union need not be
			x, k, ok := p.pickChunk(t)
			if !ok {
				t.Skip("no chunk")
			}
			w := x.m.Window(k<<16, k<<16+65535)
			ym := model.New()
			d := uint64(rapid.SampledFrom([]int{1, 2}).Draw(t, "d"))
			for _, iv := range w.Intervals() {
				if iv.Hi-iv.Lo >= 16 {
					ym.AddRange(iv.Lo, iv.Hi)
				} else if iv.Hi+d <= k<<16+65535 {
					ym.AddRange(iv.Lo+d, iv.Hi+d)
				}
			}
			if ym.IsEmpty() {
				t.Skip("nothing to build")
			}
			y := roaring.New()
			for _, iv := range ym.Intervals() {
				y.AddRange(iv.Lo, iv.Hi+1)
			}
			y.RunOptimize()
			if rapid.Bool().Draw(t, "optimizeReceiver") {
				x.b.RunOptimize()
			}
			op := rapid.SampledFrom([]int{1, 1, 2}).Draw(t, "op")
			p.log("#%d.%s(chunk %d of itself with its short runs moved by %d, run-optimized)", x.id, opNames[op], k, d)
			nm := modelOp(op, x.m, ym)
			inplaceOp(op, x.b, y)
			x.m = nm
		},
		"orRunPair": func(t *rapid.T) {
			// two run chunks on the same key, each the smallest form for its own contents (a run of L values plus
			// n isolated values, n < L-3), whose union is not (2n isolated values, n > (L-3)/2): in-place Or / Xor
			var x *member
			for _, o := range p.ms {
				if o.m.IsEmpty() {
					x = o
				}
			}
			if x == nil || rapid.Bool().Draw(t, "anyMember") {
				x = p.pick(t, "x")
			}
			k := uint64(0)
			if keys := x.m.Keys16(); len(keys) > 0 {
				if keys[len(keys)-1] == 0xFFFF {
					t.Skip("no room for another chunk")
				}
				k = uint64(keys[len(keys)-1]) + 1
			}
			L := uint64(rapid.IntRange(20, 1500).Draw(t, "L"))
			n := uint64(rapid.IntRange(int(L-3)/2+1, int(L)-4).Draw(t, "n"))
			base := k << 16
			y := roaring.New()
			ym := model.New()
			x.b.AddRange(base, base+L)
			x.m.AddRange(base, base+L-1)
			y.AddRange(base, base+L)
			ym.AddRange(base, base+L-1)
			for i := uint64(0); i < n; i++ {
				v := base + L + 10 + 4*i
				x.b.Add(uint32(v))
				x.m.Add(v)
				y.Add(uint32(v + 2))
				ym.Add(v + 2)
			}
			x.b.RunOptimize()
			y.RunOptimize()
			op := rapid.SampledFrom([]int{1, 1, 2}).Draw(t, "op")
			p.log("#%d: new run chunk %d (run of %d + %d isolated values), then in-place %s with a run chunk holding the same run and the isolated values moved by 2", x.id, k, L, n, opNames[op])
			nm := modelOp(op, x.m, ym)
			inplaceOp(op, x.b, y)
			x.m = nm
		},
		"fromDense": func(t *rapid.T) {
			// a new member from a plain bit vector whose length is not a multiple of a chunk (1024 words): the
			// trailing piece holds a drawn number of bits per word
			full := rapid.IntRange(0, 2).Draw(t, "fullChunks")
			tail := rapid.SampledFrom([]int{0, 1, 7, 63, 64, 100, 500, 1023}).Draw(t, "tailWords")
			bitsPerWord := rapid.SampledFrom([]int{1, 3, 4, 5, 8, 33, 64}).Draw(t, "bitsPerWord")
			words := make([]uint64, full*1024+tail)
			pal := []uint64{0, 1, 0x8000000000000001, 0x0101010101010101, ^uint64(0)}
			for c := 0; c < full; c++ {
				base := pal[rapid.IntRange(0, len(pal)-1).Draw(t, "w")]
				for i := 0; i < 1024; i++ {
					words[c*1024+i] = base ^ uint64(i%7)
				}
			}
			w := ^uint64(0)
			if bitsPerWord < 64 {
				w = uint64(1)<<uint(bitsPerWord) - 1
			}
			for i := full * 1024; i < len(words); i++ {
				words[i] = w << uint(i%(65-bitsPerWord))
			}
			m := model.New()
			for i, wv := range words {
				for b := 0; b < 64; b++ {
					if wv>>uint(b)&1 == 1 {
						m.Add(uint64(i)*64 + uint64(b))
					}
				}
			}
			doCopy := rapid.Bool().Draw(t, "doCopy")
			nm := p.add(roaring.FromDense(words, doCopy), m, !doCopy)
			p.keep = append(p.keep, words)
			p.log("#%d=FromDense(%d full chunks + %d words with %d bits each, doCopy=%v)", nm.id, full, tail, bitsPerWord, doCopy)
		},
		"addManyComb": func(t *rapid.T) {
			// one AddMany call that sprinkles many isolated values over a chunk (the last chunk the call touches)
			x, k, ok := p.pickChunk(t)
			if !ok {
				t.Skip("no chunk")
			}
			step := uint64(rapid.IntRange(2, 9).Draw(t, "step"))
			lo := k<<16 + gen.Low(t, "lo")
			n := rapid.IntRange(1, 3000).Draw(t, "n")
			var vals []uint32
			if rapid.Bool().Draw(t, "otherChunkFirst") && k > 0 {
				vals = append(vals, uint32((k-1)<<16+7))
			}
			for i, v := 0, lo; i < n && v <= k<<16+65535; i, v = i+1, v+step {
				vals = append(vals, uint32(v))
			}
			p.log("#%d.AddMany(%d values from %d step %d)", x.id, len(vals), lo, step)
			x.b.AddMany(vals)
			x.m.AddValues32(vals)
		},
		"reAddRange": func(t *rapid.T) {
			// AddRange over (a little more than) something that is already there: the cardinality barely moves
			x, k, ok := p.pickChunk(t)
			if !ok {
				t.Skip("no chunk")
			}
			ivs := x.m.Window(k<<16, k<<16+65535).Intervals()
			if len(ivs) == 0 {
				t.Skip("chunk vanished")
			}
			i := rapid.IntRange(0, len(ivs)-1).Draw(t, "iv")
			j := i + rapid.IntRange(0, 40).Draw(t, "span")
			if j >= len(ivs) {
				j = len(ivs) - 1
			}
			s, e := ivs[i].Lo, ivs[j].Hi+1
			if d := uint64(rapid.IntRange(0, 2).Draw(t, "before")); s >= k<<16+d {
				s -= d
			}
			e += uint64(rapid.IntRange(0, 2).Draw(t, "after"))
			if e > model.Max32+1 {
				e = model.Max32 + 1
			}
			p.log("#%d.AddRange(%d,%d)", x.id, s, e)
			x.b.AddRange(s, e)
			x.m.AddRange(s, e-1)
		},
		"tinyRanges": func(t *rapid.T) {
			// many very short ranges, each landing in a chunk of its own (often a chunk that does not exist yet)
			var x *member
			if rapid.Bool().Draw(t, "onEmpty") {
				for _, o := range p.ms {
					if o.m.IsEmpty() {
						x = o
					}
				}
				if x == nil {
					x = p.add(roaring.New(), model.New(), false)
					p.log("#%d=New()", x.id)
				}
			} else {
				x = p.pick(t, "x")
			}
			k0 := uint64(0)
			if keys := x.m.Keys16(); len(keys) > 0 && rapid.Bool().Draw(t, "afterLast") {
				k0 = uint64(keys[len(keys)-1]) + 1
			} else if rapid.IntRange(0, 3).Draw(t, "anyKey") == 0 {
				k0 = uint64(gen.Key(t, "k0"))
			}
			n := rapid.IntRange(1, 14).Draw(t, "count")
			w := uint64(rapid.IntRange(1, 4).Draw(t, "width"))
			stride := uint64(rapid.SampledFrom([]int{65536, 65536, 65537, 131072}).Draw(t, "stride"))
			lo := k0<<16 + rapid.SampledFrom([]uint64{0, 1, 100, 65534, 65535}).Draw(t, "low")
			how := rapid.IntRange(0, 2).Draw(t, "how")
			p.log("#%d.tinyRanges(%s from=%d width=%d stride=%d count=%d)", x.id, []string{"AddRange", "Flip", "static Flip"}[how], lo, w, stride, n)
			for i := 0; i < n; i++ {
				s := lo + uint64(i)*stride
				e := s + w
				if e > model.Max32+1 {
					break
				}
				switch how {
				case 0:
					x.b.AddRange(s, e)
					x.m.AddRange(s, e-1)
				case 1:
					x.b.Flip(s, e)
					x.m.FlipRange(s, e-1)
				default:
					x.b = roaring.Flip(x.b, s, e)
					x.m.FlipRange(s, e-1)
				}
			}
		},
		"andNotOwnPrefix": func(t *rapid.T) {
			// in-place difference with a bitmap that holds exactly the first k chunks of x (emptying and
			// dropping them) plus, optionally, a value beyond x's last key: the surviving chunks move down
			x := p.pick(t, "x")
			keys := x.m.Keys16()
			if len(keys) < 2 {
				t.Skip("needs two chunks")
			}
			k := rapid.IntRange(1, len(keys)-1).Draw(t, "k")
			lim := uint64(keys[k]) << 16
			ym := x.m.Window(0, lim-1)
			if rapid.Bool().Draw(t, "beyond") && keys[len(keys)-1] < 0xFFFF {
				ym.Add(uint64(keys[len(keys)-1]+1)<<16 + 3)
			}
			yl := mustMake(t, gen.FromSet(t, "prefix", ym, gen.KindsValid), live.Read)
			p.log("#%d.AndNot(first %d chunks of itself)", x.id, k)
			x.b.AndNot(yl.B)
			x.m = model.AndNot(x.m, ym)
		},
		"SetCopyOnWrite": func(t *rapid.T) {
			x := p.pick(t, "x")
			if x.tainted {
				t.Skip("documented misuse on zero-copy lineage")
			}
			v := rapid.Bool().Draw(t, "on")
			p.log("#%d.SetCopyOnWrite(%v)", x.id, v)
			x.b.SetCopyOnWrite(v)
		},
		"RunOptimize": func(t *rapid.T) {
			x := p.pick(t, "x")
			p.log("#%d.RunOptimize()", x.id)
			x.b.RunOptimize()
		},
		"CloneCopyOnWriteContainers": func(t *rapid.T) {
			x := p.pick(t, "x")
			p.log("#%d.CloneCopyOnWriteContainers()", x.id)
			x.b.CloneCopyOnWriteContainers()
		},
		"roundtrip": func(t *rapid.T) {
			if p.mode == modeC07 {
				t.Skip("serialization round trips belong to the C09/C14 machines")
			}
			x := p.pick(t, "x")
			frozen := rapid.Bool().Draw(t, "frozen")
			nb := roaring.New()
			if frozen {
				by, err := x.b.Freeze()
				if err != nil {
					fail("Freeze(#%d): %v", x.id, err)
				}
				if err := nb.FrozenView(by); err != nil {
					fail("FrozenView(Freeze(#%d)): %v", x.id, err)
				}
				p.keep = append(p.keep, by)
			} else {
				by, err := x.b.ToBytes()
				if err != nil {
					fail("ToBytes(#%d): %v (a library-made bitmap must be serializable)", x.id, err)
				}
				if rapid.Bool().Draw(t, "zerocopy") {
					_, err = nb.FromBuffer(by)
					p.keep = append(p.keep, by)
				} else {
					_, err = nb.ReadFrom(bytes.NewReader(by))
				}
				if err != nil {
					fail("reading back ToBytes(#%d): %v", x.id, err)
				}
			}
			nm := p.add(nb, x.m.Clone(), true, x)
			p.log("#%d=roundtrip(#%d,frozen=%v)", nm.id, x.id, frozen)
		},
		"": func(t *rapid.T) { p.invariant(t) },
	}
}

// structure walks the chunk table through the hook, independently of Validate().
func structure(b *roaring.Bitmap) error {
	var prev int = -1
	for i, c := range b.VerifChunks() {
		if int(c.Key) <= prev {
			return fmt.Errorf("chunk %d: key %d not above previous key %d", i, c.Key, prev)
		}
		prev = int(c.Key)
		if c.Card <= 0 {
			return fmt.Errorf("chunk %d (key %d): empty %s chunk", i, c.Key, kindName[c.Kind])
		}
		switch c.Kind {
		case 1:
			if c.Card <= 4096 {
				return fmt.Errorf("chunk %d (key %d): bitmap chunk with only %d values (must be > 4096)", i, c.Key, c.Card)
			}
		case 2:
			if c.Card > 4096 {
				return fmt.Errorf("chunk %d (key %d): array chunk with %d values (must be <= 4096)", i, c.Key, c.Card)
			}
		}
	}
	return nil
}

func (p *pool) invariant(t *rapid.T) {
	fail := func(format string, a ...interface{}) {
		t.Fatalf("%s\n  history: %s", fmt.Sprintf(format, a...), p.history())
	}
	switch p.mode {
	case modeC07:
		frozenAround := false
		for _, x := range p.ms {
			if x.tainted {
				frozenAround = true
			}
		}
		if frozenAround {
			runtime.GC()
		}
		for _, x := range p.ms {
			if d := live.Check(x.b, x.m); d != "" {
				fail("bitmap #%d no longer equals its own model (it was changed through another bitmap, or an operation on it was wrong): %s", x.id, d)
			}
		}
		// structural: a backing array reachable from two live bitmaps must be flagged shared in both
		type owner struct {
			id     int
			key    uint16
			shared bool
		}
		seen := map[uintptr]owner{}
		for _, x := range p.ms {
			for _, c := range x.b.VerifChunks() {
				if c.Data == 0 {
					continue
				}
				if o, ok := seen[c.Data]; ok && o.id != x.id {
					if !o.shared || !c.Shared {
						fail("structural sharing without the copy-on-write flag: bitmaps #%d (key %d, flagged=%v) and #%d (key %d, flagged=%v) use the same backing array; an in-place change through the unflagged one changes the other", o.id, o.key, o.shared, x.id, c.Key, c.Shared)
					}
					inst.Count(p.prop, "shared-and-flagged-chunk-observed")
				}
				seen[c.Data] = owner{x.id, c.Key, c.Shared}
			}
		}
	case modeC09:
		for _, x := range p.ms {
			if err := x.b.Validate(); err != nil {
				fail("bitmap #%d made by public operations fails Validate(): %v", x.id, err)
			}
			if err := structure(x.b); err != nil {
				fail("bitmap #%d made by public operations is malformed: %v", x.id, err)
			}
			by, err := x.b.ToBytes()
			if err != nil {
				fail("bitmap #%d cannot be serialized: %v", x.id, err)
			}
			if _, _, err := spec.DecodePortable(by, true); err != nil {
				fail("bitmap #%d: independent structural check of its serialization failed: %v", x.id, err)
			}
		}
	case modeC14:
		for _, x := range p.ms {
			checkSizeBound(fail, x, "")
			c := x.b.Clone()
			c.RunOptimize()
			checkSizeBound(fail, &member{b: c, m: x.m, id: x.id}, " after RunOptimize")
		}
	}
	sig := ""
	for _, x := range p.ms {
		sig += kindLetters(kindsSig(x.b)) + "|"
	}
	if sig != p.sig {
		p.kindChange = true
		p.sig = sig
	}
}

func checkSizeBound(fail func(string, ...interface{}), x *member, when string) {
	n := x.b.GetCardinality()
	size := x.b.GetSerializedSizeInBytes()
	by, err := x.b.ToBytes()
	if err != nil {
		fail("bitmap #%d%s cannot be serialized: %v", x.id, when, err)
	}
	if uint64(len(by)) != size {
		fail("bitmap #%d%s: GetSerializedSizeInBytes=%d but WriteTo emits %d bytes", x.id, when, size, len(by))
	}
	if n == 0 {
		// the empty bitmap still has its 8-byte header: N = 0 integers below any x
		for _, u := range []uint64{0, 1, 65536, 1 << 32} {
			if readme := 8 + 9*((u+65535)/65536); size > readme {
				fail("bitmap #%d%s: the empty bitmap serializes to %d bytes > README bound %d for x=%d", x.id, when, size, readme, u)
			}
			if bd := roaring.BoundSerializedSizeInBytes(0, u); size > bd {
				fail("bitmap #%d%s: the empty bitmap serializes to %d bytes > BoundSerializedSizeInBytes(0,%d) = %d", x.id, when, size, u, bd)
			}
		}
		return
	}
	max := uint64(x.b.Maximum())
	for _, u := range []uint64{max + 1, max + 2, (max | 0xFFFF) + 1, (max | 0xFFFF) + 65537, 1 << 32} {
		if u > 1<<32 {
			continue
		}
		readme := 8 + 9*((u+65535)/65536) + 2*n
		if size > readme {
			fail("bitmap #%d%s: %d integers below %d serialize to %d bytes > README bound 8+9*ceil(x/65536)+2N = %d", x.id, when, n, u, size, readme)
		}
		if bd := roaring.BoundSerializedSizeInBytes(n, u); size > bd {
			fail("bitmap #%d%s: %d integers below %d serialize to %d bytes > BoundSerializedSizeInBytes = %d", x.id, when, n, u, size, bd)
		}
	}
}

func runPool(t *rapid.T, mode poolMode, prop string) {
	p := &pool{mode: mode, prop: prop, derived: map[[2]int]bool{}}
	if mode == modeC07 {
		p.newMember(t)
		p.newMember(t)
	} else {
		// C09/C14 quantify over histories from the empty bitmap
		nm := p.add(roaring.New(), model.New(), false)
		p.log("#%d=New()", nm.id)
		p.newMember(t)
	}
	p.invariant(t)
	t.Repeat(p.rules(t))
	runtime.KeepAlive(p.keep)
	nontrivial := false
	switch mode {
	case modeC07:
		nontrivial = p.hitDerivedShared
		if p.hitDerivedShared {
			inst.Count(prop, "mutation-in-chunk-common-to-derived-pair")
		}
	case modeC09:
		nontrivial = p.kindChange
	case modeC14:
		for _, x := range p.ms {
			for _, c := range x.b.VerifChunks() {
				if c.Kind != 2 {
					nontrivial = nontrivial || !x.m.IsEmpty()
				}
			}
		}
	}
	inst.CountN(prop, "steps", len(p.ops))
	inst.Case(prop, nontrivial, p.history())
}

func TestC07(t *testing.T) { rapid.Check(t, func(t *rapid.T) { runPool(t, modeC07, "C07") }) }
func TestC09(t *testing.T) { rapid.Check(t, func(t *rapid.T) { runPool(t, modeC09, "C09") }) }
func TestC14(t *testing.T) { rapid.Check(t, func(t *rapid.T) { runPool(t, modeC14, "C14") }) }
