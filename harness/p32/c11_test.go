package p32

import (
	"fmt"
	"runtime"
	"strings"
	"testing"

	"github.com/RoaringBitmap/roaring/v2"
	"pgregory.net/rapid"

	"verifharness/gen"
	"verifharness/inst"
	"verifharness/live"
	"verifharness/model"
)

// aggList draws a list of bitmaps whose keys fall in a common window so that
// chunks meet; the window is placed at the bottom, middle or very top of the key space.
func aggList(t *rapid.T) ([]*live.Live, string) {
	n := rapid.IntRange(0, 8).Draw(t, "n")
	span := rapid.SampledFrom([]int{1, 2, 3, 5, 9, 17, 33, 70, 140, 260}).Draw(t, "span")
	place := rapid.SampledFrom([]string{"bottom", "middle", "top"}).Draw(t, "place")
	k0 := 0
	switch place {
	case "middle":
		k0 = 30000
	case "top":
		k0 = 65536 - span
	}
	var out []*live.Live
	var specs []gen.BitmapSpec
	descs := []string{fmt.Sprintf("keys %d..%d", k0, k0+span-1)}
	for i := 0; i < n; i++ {
		label := fmt.Sprintf("m%d", i)
		switch rapid.IntRange(0, 9).Draw(t, label+".class") {
		case 0: // empty member
			l, _ := live.Make(gen.BitmapSpec{}, live.Built)
			out = append(out, l)
			descs = append(descs, "empty")
			continue
		case 1: // pointer duplicate of an earlier member
			if len(out) > 0 {
				out = append(out, out[rapid.IntRange(0, len(out)-1).Draw(t, label+".dup")])
				descs = append(descs, "dup")
				continue
			}
		case 2, 3: // related to an earlier member (complement, threshold, shifted, touching spans, ...)
			if len(specs) > 0 {
				src := specs[rapid.IntRange(0, len(specs)-1).Draw(t, label+".relTo")]
				bs, rel := gen.Related(t, label, src, gen.KindsValid)
				f := live.DrawForm(t, label+".form")
				l, err := live.Make(bs, f)
				if err != nil {
					t.Fatalf("harness: %v", err)
				}
				// at the front (so that the pair is folded first) or at the end
				if rapid.Bool().Draw(t, label+".front") {
					out = append([]*live.Live{l}, out...)
				} else {
					out = append(out, l)
				}
				specs = append(specs, bs)
				descs = append(descs, fmt.Sprintf("%s(%s) as %s", rel, bs, f))
				continue
			}
		case 4: // completely full chunks on some of the window's keys
			fm := model.New()
			for k := 0; k < span && k < 4; k++ {
				if k == 0 || rapid.Bool().Draw(t, label+".fullAlso") {
					fm.AddRange(uint64(k0+k)<<16, uint64(k0+k)<<16+65535)
				}
			}
			l, err := live.Make(gen.FromSet(t, label+".full", fm, gen.KindsAnyLegal), live.DrawForm(t, label+".form"))
			if err != nil {
				t.Fatalf("harness: %v", err)
			}
			out = append([]*live.Live{l}, out...) // at the front, where the accumulator of an intersection starts out full
			descs = append(descs, "full chunks (placed first)")
			continue
		}
		// a subset of the window's keys
		density := rapid.SampledFrom([]int{1, 2, 4}).Draw(t, label+".density")
		var keys []uint16
		for k := 0; k < span; k++ {
			if span <= 3 || rapid.IntRange(0, density-1).Draw(t, label+".has") == 0 {
				keys = append(keys, uint16(k0+k))
			}
		}
		if len(keys) == 0 {
			keys = []uint16{uint16(k0)}
		}
		bs := gen.BitmapWithKeys(t, label, keys, gen.KindsValid)
		f := live.DrawForm(t, label+".form")
		l, err := live.Make(bs, f)
		if err != nil {
			t.Fatalf("harness: %v", err)
		}
		out = append(out, l)
		specs = append(specs, bs)
		descs = append(descs, fmt.Sprintf("%s as %s", bs, f))
	}
	return out, strings.Join(descs, " || ")
}

func propC11(t *rapid.T) {
	list, desc := aggList(t)
	bms := make([]*roaring.Bitmap, len(list))
	or, xor, and := model.New(), model.New(), model.New()
	keyCount := map[uint16]int{}
	for i, l := range list {
		bms[i] = l.B
		or = model.Or(or, l.Model)
		xor = model.Xor(xor, l.Model)
		if i == 0 {
			and = l.Model.Clone()
		} else {
			and = model.And(and, l.Model)
		}
		for _, k := range l.Model.Keys16() {
			keyCount[k]++
		}
	}
	shared := false
	for _, c := range keyCount {
		if c >= 2 {
			shared = true
		}
	}
	fn := rapid.SampledFrom([]string{"FastOr", "HeapOr", "ParOr", "ParHeapOr", "FastAnd", "ParAnd", "HeapXor", "AndAny"}).Draw(t, "fn")
	workerSet := []int{0, 1, 2, 3, 4, 7, 16, 33}
	var results []*roaring.Bitmap
	check := func(name string, got *roaring.Bitmap, want *model.Set) {
		runtime.GC()
		results = append(results, got)
		if d := live.Check(got, want); d != "" {
			t.Fatalf("%s over %d bitmaps != fold of the binary operation: %s\n  want=%s\n  list: %s", name, len(list), d, want, desc)
		}
		if got.Validate() != nil {
			inst.Count("C11", "result-fails-Validate(counted only)")
		}
	}
	args := func() []*roaring.Bitmap { return append([]*roaring.Bitmap(nil), bms...) }
	switch fn {
	case "FastOr":
		check(fn, roaring.FastOr(args()...), or)
	case "HeapOr":
		check(fn, roaring.HeapOr(args()...), or)
	case "HeapXor":
		check(fn, roaring.HeapXor(args()...), xor)
	case "FastAnd":
		check(fn, roaring.FastAnd(args()...), and)
	case "ParOr", "ParHeapOr", "ParAnd":
		// every worker count must give the same (correct) answer
		for _, w := range workerSet {
			switch fn {
			case "ParOr":
				check(fmt.Sprintf("ParOr(%d)", w), roaring.ParOr(w, args()...), or)
			case "ParHeapOr":
				check(fmt.Sprintf("ParHeapOr(%d)", w), roaring.ParHeapOr(w, args()...), or)
			default:
				check(fmt.Sprintf("ParAnd(%d)", w), roaring.ParAnd(w, args()...), and)
			}
		}
	case "AndAny":
		if len(list) == 0 {
			t.Skip("AndAny is specified for a non-empty list")
		}
		xs := gen.Bitmap(t, "x", gen.KindsValid, false)
		if rapid.Bool().Draw(t, "x.related") && !or.IsEmpty() {
			xs, _ = gen.Related(t, "x", gen.FromSet(t, "xsrc", or, gen.KindsValid), gen.KindsValid)
		}
		xl := mustMake(t, xs, live.DrawForm(t, "x.form"))
		xl.B.AndAny(args()...)
		check("x.AndAny", xl.B, model.And(xl.Model, or))
		runtime.KeepAlive(xl)
	}
	// results belong to the caller: change the earlier ones (remove a value from every chunk, a whole range), then
	// compute the same aggregate once more - it is the fold again, not something that remembers the earlier result
	if fn != "AndAny" && len(results) > 0 && rapid.Bool().Draw(t, "scribbleResults") {
		for _, r := range results {
			if r.IsEmpty() {
				continue
			}
			for _, k := range or.Keys16() {
				base := uint32(k) << 16
				r.Remove(base + 5)
				r.Remove(base + 65535)
				r.RemoveRange(uint64(base)+1000, uint64(base)+1200)
			}
		}
		results = nil
		switch fn {
		case "FastOr":
			check(fn+" (again, after the earlier result was changed)", roaring.FastOr(args()...), or)
		case "HeapOr":
			check(fn+" (again, after the earlier result was changed)", roaring.HeapOr(args()...), or)
		case "ParOr":
			check(fn+"(1) (again, after the earlier results were changed)", roaring.ParOr(1, args()...), or)
			check(fn+"(3) (again, after the earlier results were changed)", roaring.ParOr(3, args()...), or)
		case "ParHeapOr":
			check(fn+"(2) (again, after the earlier results were changed)", roaring.ParHeapOr(2, args()...), or)
		case "FastAnd":
			check(fn+" (again, after the earlier result was changed)", roaring.FastAnd(args()...), and)
		case "ParAnd":
			check(fn+"(2) (again, after the earlier results were changed)", roaring.ParAnd(2, args()...), and)
		case "HeapXor":
			check(fn+" (again, after the earlier result was changed)", roaring.HeapXor(args()...), xor)
		}
	}
	// the fold does not depend on what was computed before over the same list: a second aggregate of
	// another kind, and the members themselves, are still what the models say
	if fn != "AndAny" {
		switch rapid.IntRange(0, 3).Draw(t, "afterwards") {
		case 0:
			check("HeapXor after "+fn, roaring.HeapXor(args()...), xor)
		case 1:
			check("FastAnd after "+fn, roaring.FastAnd(args()...), and)
		case 2:
			check("FastOr after "+fn, roaring.FastOr(args()...), or)
		}
	}
	for i, l := range list {
		if d := live.Check(l.B, l.Model); d != "" {
			t.Fatalf("member #%d of the list changed during %s: %s\n  list: %s", i, fn, d, desc)
		}
		if !l.BufferIntact() {
			t.Fatalf("the bytes behind zero-copy member #%d changed during %s\n  list: %s", i, fn, desc)
		}
	}
	runtime.KeepAlive(list)
	inst.Count("C11", "fn:"+fn)
	inst.Count("C11", fmt.Sprintf("members:%d", len(list)))
	inst.Case("C11", len(list) >= 3 && len(keyCount) >= 2 && shared, fn+" "+desc)
}

func TestC11(t *testing.T) { rapid.Check(t, propC11) }
