package p32

import (
	"fmt"
	"os"
	"runtime"
	"strconv"
	"testing"

	"github.com/RoaringBitmap/roaring/v2"

	"verifharness/gen"
	"verifharness/inst"
	"verifharness/live"
	"verifharness/model"
	"verifharness/spec"
)

// TestC11Matrix enumerates a finite space: every boundary template A on one chunk x partners B derived from it
// (the same set, its complement, a comb that starts exactly on A's largest value / right behind it / ends exactly
// on A's smallest value, with a size that brings the two cardinalities to 4096 / 4097 or well above) x natural and
// run kinds x lists {[A,B],[B,A],[A,B,empty],[A,B,C],[C,A,B]} (C on another key) x every aggregate and worker
// count, compared with the model fold. The first two members of a list are folded by other code than the rest.
func TestC11Matrix(t *testing.T) {
	shard, _ := strconv.Atoi(os.Getenv("VERIF_SHARD"))
	shards, _ := strconv.Atoi(os.Getenv("VERIF_SHARDS"))
	if shards <= 0 {
		shards = 1
	}
	tpl := matrixTemplates()
	names := make([]string, 0, len(tpl))
	for n := range tpl {
		names = append(names, n)
	}
	sortStrings(names)
	const key = 7
	comb := func(lo uint64, st uint64, n int, down bool) *model.Set {
		vs := make([]uint64, 0, n)
		for i := 0; i < n; i++ {
			d := uint64(i) * st
			if down {
				if d > lo {
					break
				}
				vs = append(vs, lo-d)
			} else {
				if lo+d > 65535 {
					break
				}
				vs = append(vs, lo+d)
			}
		}
		return model.FromValues(vs)
	}
	type partner struct {
		name string
		s    *model.Set
	}
	partners := func(a *model.Set) []partner {
		out := []partner{{"same", a.Clone()}}
		if c := a.Complement(0, 65535); !c.IsEmpty() {
			out = append(out, partner{"complement", c})
		}
		ca := int(a.Card())
		sizes := []int{1, 2001}
		for _, target := range []int{4096, 4097} {
			if n := target - ca + 1; n > 0 { // +1: the border value is shared
				sizes = append(sizes, n)
			}
		}
		for _, n := range sizes {
			out = append(out, partner{fmt.Sprintf("comb%d-from-max", n), comb(a.Max(), 3, n, false)})
			out = append(out, partner{fmt.Sprintf("comb%d-down-to-min", n), comb(a.Min(), 3, n, true)})
		}
		if a.Max() < 65535 {
			out = append(out, partner{"comb2001-behind-max", comb(a.Max()+1, 2, 2001, false)})
		}
		return out
	}
	kindsOf := func(s *model.Set) []spec.Kind {
		out := []spec.Kind{spec.NaturalKind(int(s.Card()))}
		if n := len(s.Intervals()); gen.RunIsMinimal(n, int(s.Card())) {
			out = append(out, spec.Run)
		}
		return out
	}
	mk := func(s *model.Set, k spec.Kind, key uint16) *live.Live {
		var bs gen.BitmapSpec
		bs.Chunks = []spec.Chunk{{Key: key, Kind: k, Ivs: s.Intervals()}}
		bs.Shapes = []string{"tpl"}
		l, err := live.Make(bs, live.Read)
		if err != nil {
			t.Fatal(err)
		}
		return l
	}
	type agg struct {
		name string
		kind string
		f    func(bs ...*roaring.Bitmap) *roaring.Bitmap
	}
	var aggs []agg
	aggs = append(aggs, agg{"FastOr", "or", roaring.FastOr}, agg{"HeapOr", "or", roaring.HeapOr}, agg{"HeapXor", "xor", roaring.HeapXor}, agg{"FastAnd", "and", roaring.FastAnd})
	for _, w := range []int{0, 1, 3} {
		w := w
		aggs = append(aggs,
			agg{fmt.Sprintf("ParOr(%d)", w), "or", func(bs ...*roaring.Bitmap) *roaring.Bitmap { return roaring.ParOr(w, bs...) }},
			agg{fmt.Sprintf("ParHeapOr(%d)", w), "or", func(bs ...*roaring.Bitmap) *roaring.Bitmap { return roaring.ParHeapOr(w, bs...) }},
			agg{fmt.Sprintf("ParAnd(%d)", w), "and", func(bs ...*roaring.Bitmap) *roaring.Bitmap { return roaring.ParAnd(w, bs...) }})
	}
	cell, calls := 0, 0
	for _, na := range names {
		a := tpl[na]
		for _, pb := range partners(a) {
			if pb.s.IsEmpty() {
				continue
			}
			for _, ka := range kindsOf(a) {
				for _, kb := range kindsOf(pb.s) {
					cell++
					if cell%shards != shard%shards {
						continue
					}
					la, lb := mk(a, ka, key), mk(pb.s, kb, key)
					lc := mk(model.FromValues([]uint64{3, 70, 4000}), spec.Array, key+5)
					le, _ := live.Make(gen.BitmapSpec{}, live.Built)
					lists := [][]*live.Live{{la, lb}, {lb, la}, {la, lb, le}, {la, lb, lc}, {lc, la, lb}}
					for li, list := range lists {
						ms := make([]*member, len(list))
						for i, l := range list {
							ms[i] = &member{b: l.B, m: l.Model}
						}
						for _, g := range aggs {
							want := aggModel(g.kind, ms)
							got := g.f(bitmapsOf(ms)...)
							calls++
							if d := live.Check(got, want); d != "" {
								t.Fatalf("%s over list #%d of A=%s(%s) B=%s(%s): %s\n  A=%s\n  B=%s", g.name, li, na, ka, pb.name, kb, d, a, pb.s)
							}
						}
						for i, l := range list {
							if d := live.Check(l.B, l.Model); d != "" {
								t.Fatalf("member #%d of list #%d (A=%s(%s) B=%s(%s)) changed during the aggregates: %s", i, li, na, ka, pb.name, kb, d)
							}
						}
					}
					runtime.KeepAlive(lists)
					inst.Case("C11", true, fmt.Sprintf("matrix A=%s(%s) B=%s(%s) x 5 lists x %d aggregates", na, ka, pb.name, kb, len(aggs)))
				}
			}
		}
	}
	inst.CountN("C11", "matrix-aggregate-calls", calls)
}

// TestC11ManyChunks: members with far more chunks than any worker count or channel capacity (more than a
// thousand), on sparse keys, together with small members - every aggregate and a spread of worker counts.
func TestC11ManyChunks(t *testing.T) {
	shard, _ := strconv.Atoi(os.Getenv("VERIF_SHARD"))
	if shard != 0 {
		return
	}
	mk := func(keys []int, low uint64) (*roaring.Bitmap, *model.Set) {
		b, m := roaring.New(), model.New()
		for _, k := range keys {
			v := uint64(k)<<16 + low + uint64(k%5)
			b.Add(uint32(v))
			m.Add(v)
		}
		return b, m
	}
	var odd, even, third []int
	for k := 0; k < 4200; k++ {
		switch {
		case k%2 == 1:
			odd = append(odd, k)
		case k%6 == 0:
			third = append(third, k)
		}
		if k%2 == 0 && k < 2400 {
			even = append(even, k)
		}
	}
	bo, mo := mk(odd, 7)   // 2100 chunks on odd keys
	be, me := mk(even, 7)  // 1200 chunks on even keys
	bt, mt := mk(third, 9) // 700 chunks
	bs, ms := mk([]int{0, 2, 4001, 65535}, 7)
	bo2, mo2 := mk(odd[:1500], 7)
	lists := [][]*member{
		{{b: bo, m: mo}, {b: bs, m: ms}, {b: be, m: me}},
		{{b: bs, m: ms}, {b: bo, m: mo}},
		{{b: be, m: me}, {b: bt, m: mt}, {b: bo, m: mo}, {b: bs, m: ms}},
		{{b: bo, m: mo}, {b: bo2, m: mo2}, {b: bo, m: mo}},
	}
	for li, ms := range lists {
		for _, w := range []int{0, 1, 2, 3, 7, 16, 33} {
			if d := live.Check(roaring.ParOr(w, bitmapsOf(ms)...), aggModel("or", ms)); d != "" {
				t.Fatalf("ParOr(%d) over list #%d of many-chunk members: %s", w, li, d)
			}
			if d := live.Check(roaring.ParHeapOr(w, bitmapsOf(ms)...), aggModel("or", ms)); d != "" {
				t.Fatalf("ParHeapOr(%d) over list #%d of many-chunk members: %s", w, li, d)
			}
			if d := live.Check(roaring.ParAnd(w, bitmapsOf(ms)...), aggModel("and", ms)); d != "" {
				t.Fatalf("ParAnd(%d) over list #%d of many-chunk members: %s", w, li, d)
			}
		}
		if d := live.Check(roaring.FastOr(bitmapsOf(ms)...), aggModel("or", ms)); d != "" {
			t.Fatalf("FastOr over list #%d of many-chunk members: %s", li, d)
		}
		if d := live.Check(roaring.HeapXor(bitmapsOf(ms)...), aggModel("xor", ms)); d != "" {
			t.Fatalf("HeapXor over list #%d of many-chunk members: %s", li, d)
		}
		for i, x := range ms {
			if d := live.Check(x.b, x.m); d != "" {
				t.Fatalf("member #%d of many-chunk list #%d changed: %s", i, li, d)
			}
		}
		inst.Case("C11", true, fmt.Sprintf("many-chunk list #%d x 7 worker counts x 3 parallel aggregates", li))
	}
}
