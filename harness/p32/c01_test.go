package p32

import (
	"fmt"
	"runtime"
	"testing"

	"github.com/RoaringBitmap/roaring/v2"
	"pgregory.net/rapid"

	"verifharness/gen"
	"verifharness/inst"
	"verifharness/live"
	"verifharness/model"
)

var opNames = []string{"And", "Or", "Xor", "AndNot"}

func modelOp(op int, a, b *model.Set) *model.Set {
	switch op {
	case 0:
		return model.And(a, b)
	case 1:
		return model.Or(a, b)
	case 2:
		return model.Xor(a, b)
	}
	return model.AndNot(a, b)
}

func staticOp(op int, a, b *roaring.Bitmap) *roaring.Bitmap {
	switch op {
	case 0:
		return roaring.And(a, b)
	case 1:
		return roaring.Or(a, b)
	case 2:
		return roaring.Xor(a, b)
	}
	return roaring.AndNot(a, b)
}

func inplaceOp(op int, a, b *roaring.Bitmap) {
	switch op {
	case 0:
		a.And(b)
	case 1:
		a.Or(b)
	case 2:
		a.Xor(b)
	default:
		a.AndNot(b)
	}
}

func propC01(t *rapid.T) {
	pol := drawPolicy(t)
	sa := gen.Bitmap(t, "A", pol, true)
	self := rapid.IntRange(0, 7).Draw(t, "self") == 0
	var sb gen.BitmapSpec
	rel := "self"
	if self {
		sb = sa
	} else {
		sb, rel = gen.Related(t, "B", sa, pol)
	}
	fa := live.DrawForm(t, "formA")
	fb := live.DrawForm(t, "formB")
	op := rapid.IntRange(0, 3).Draw(t, "op")
	inplace := rapid.Bool().Draw(t, "inplace")

	la := mustMake(t, sa, fa)
	lb := la
	if !self {
		lb = mustMake(t, sb, fb)
	}
	ma, mb := la.Model, lb.Model

	// classification from the hook: which kind pairings meet on common keys
	ka, kb := kindsByKey(la.B), kindsByKey(lb.B)
	common := 0
	for k, x := range ka {
		if y, ok := kb[k]; ok {
			common++
			inst.Count("C01", "pair:"+x+"/"+y)
		}
	}
	inst.Count("C01", "relation:"+rel)
	inst.Count("C01", "form:"+fa.String())
	mode := "static"
	if inplace {
		mode = "inplace"
	}
	inst.Count("C01", "op:"+opNames[op]+"-"+mode)
	if pol == gen.KindsAnyLegal {
		inst.Count("C01", "policy:nonminimal-runs-allowed")
	}

	// shortcuts first (read-only)
	wAnd := model.And(ma, mb)
	wOr := model.Or(ma, mb)
	if g := la.B.AndCardinality(lb.B); g != wAnd.Card() {
		t.Fatalf("AndCardinality=%d want %d  [%s]", g, wAnd.Card(), descPair(sa, sb, fa, fb, rel))
	}
	if g := la.B.OrCardinality(lb.B); g != wOr.Card() {
		t.Fatalf("OrCardinality=%d want %d  [%s]", g, wOr.Card(), descPair(sa, sb, fa, fb, rel))
	}
	if g := la.B.Intersects(lb.B); g != !wAnd.IsEmpty() {
		t.Fatalf("Intersects=%v want %v  [%s]", g, !wAnd.IsEmpty(), descPair(sa, sb, fa, fb, rel))
	}

	want := modelOp(op, ma, mb)
	var res *roaring.Bitmap
	if inplace {
		inplaceOp(op, la.B, lb.B)
		res = la.B
	} else {
		res = staticOp(op, la.B, lb.B)
	}
	if fa == live.Frozen || fb == live.Frozen {
		// a frozen view keeps its container table in memory the collector may not
		// scan; with GODEBUG=clobberfree=1 a collection makes a lost reference visible
		runtime.GC()
	}
	if d := live.Check(res, want); d != "" {
		t.Fatalf("%s %s wrong: %s\n  A=%s\n  B=%s\n  [%s]", mode, opNames[op], d, ma, mb, descPair(sa, sb, fa, fb, rel))
	}
	// the answer must not depend on what was computed before: a second in-place
	// step on the result, then every bitmap that shares storage with the operands
	// (the other side of a copy-on-write pair, the untouched operand) still
	// stands for its own set
	follow := ""
	if rapid.IntRange(0, 2).Draw(t, "followup") > 0 {
		sc, relc := gen.Related(t, "C", sa, pol)
		fc := live.DrawForm(t, "formC")
		lc := mustMake(t, sc, fc)
		op2 := rapid.IntRange(0, 3).Draw(t, "op2")
		inplaceOp(op2, res, lc.B)
		want = modelOp(op2, want, lc.Model)
		follow = fmt.Sprintf("; then in-place %s with C=%s as %s (%s)", opNames[op2], sc, fc, relc)
		if d := live.Check(res, want); d != "" {
			t.Fatalf("%s %s%s wrong: %s\n  A=%s\n  B=%s\n  [%s]", mode, opNames[op], follow, d, ma, mb, descPair(sa, sb, fa, fb, rel))
		}
		if d := live.Check(lc.B, lc.Model); d != "" {
			t.Fatalf("argument C changed by in-place %s: %s", opNames[op2], d)
		}
		runtime.KeepAlive(lc)
		inst.Count("C01", "followup-step")
	}
	if la.Twin != nil {
		if d := live.Check(la.Twin, ma); d != "" {
			t.Fatalf("the bitmap sharing A's chunks (copy-on-write clone) no longer holds A after %s %s%s: %s\n  A=%s\n  B=%s\n  [%s]", mode, opNames[op], follow, d, ma, mb, descPair(sa, sb, fa, fb, rel))
		}
	}
	if !self {
		if lb.Twin != nil {
			if d := live.Check(lb.Twin, mb); d != "" {
				t.Fatalf("the bitmap sharing B's chunks (copy-on-write clone) no longer holds B after %s %s%s: %s\n  A=%s\n  B=%s\n  [%s]", mode, opNames[op], follow, d, ma, mb, descPair(sa, sb, fa, fb, rel))
			}
		}
		if d := live.Check(lb.B, mb); d != "" {
			t.Fatalf("operand B no longer holds its set after %s %s%s: %s\n  A=%s\n  B=%s\n  [%s]", mode, opNames[op], follow, d, ma, mb, descPair(sa, sb, fa, fb, rel))
		}
	}
	if !inplace {
		if d := live.Check(la.B, ma); d != "" {
			t.Fatalf("operand A no longer holds its set after %s %s%s: %s\n  A=%s\n  B=%s\n  [%s]", mode, opNames[op], follow, d, ma, mb, descPair(sa, sb, fa, fb, rel))
		}
	}
	if !la.BufferIntact() || !lb.BufferIntact() {
		t.Fatalf("caller's bytes behind a zero-copy operand changed after %s %s%s  [%s]", mode, opNames[op], follow, descPair(sa, sb, fa, fb, rel))
	}
	desc := descPair(sa, sb, fa, fb, fmt.Sprintf("%s %s %s self=%v%s", rel, mode, opNames[op], self, follow))
	runtime.KeepAlive(la)
	runtime.KeepAlive(lb)
	inst.Case("C01", !ma.IsEmpty() && !mb.IsEmpty() && common > 0, desc)
}

func TestC01(t *testing.T) { rapid.Check(t, propC01) }
