package p32

import (
	"fmt"
	"os"
	"strconv"
	"testing"

	"github.com/RoaringBitmap/roaring/v2"
	"pgregory.net/rapid"

	"verifharness/gen"
	"verifharness/inst"
	"verifharness/live"
)

func TestMain(m *testing.M) { inst.Main(m) }

// thorough reports whether the driver asked for the thorough tier.
func thorough() bool { return os.Getenv("VERIF_TIER") == "thorough" }

func envInt(name string, def int) int {
	if v, err := strconv.Atoi(os.Getenv(name)); err == nil {
		return v
	}
	return def
}

var kindName = [...]string{"?", "bitmap", "array", "run"}

// kindsByKey maps chunk key -> kind name (+"*" when the slot is flagged shared).
func kindsByKey(b *roaring.Bitmap) map[uint16]string {
	m := map[uint16]string{}
	for _, c := range b.VerifChunks() {
		s := kindName[c.Kind]
		if c.Shared {
			s += "*"
		}
		m[c.Key] = s
	}
	return m
}

func drawPolicy(t *rapid.T) gen.KindPolicy {
	if rapid.IntRange(0, 4).Draw(t, "kindpolicy") == 0 {
		return gen.KindsAnyLegal
	}
	return gen.KindsValid
}

func mustMake(t *rapid.T, bs gen.BitmapSpec, f live.Form) *live.Live {
	l, err := live.Make(bs, f)
	if err != nil {
		t.Fatalf("cannot materialize %s as %s: %v", bs, f, err)
	}
	return l
}

func descPair(a, b gen.BitmapSpec, fa, fb live.Form, rest string) string {
	return fmt.Sprintf("A{%s as %s} B{%s as %s} %s", a, fa, b, fb, rest)
}
