package p32

import (
	"bytes"
	"fmt"
	"testing"

	"github.com/RoaringBitmap/roaring/v2"

	"verifharness/inst"
	"verifharness/live"
	"verifharness/model"
	"verifharness/spec"
)

// Coverage-guided operation sequences (thorough tier of C02 and C09).
//
// The input bytes are an operation script for two bitmaps and their models. Values are
// built from a small table of chunk keys and a free 16-bit low part, range lengths from a
// table of threshold values, so that the fuzzer's byte mutations move between container
// kinds instead of scattering values over 2^32.
//
// mode 0 (C02): mutation calls + content-neutral maintenance only; oracle = model equality
//   after every step (cardinality) and in full at the end, Checked* results.
// mode 1 (C09): additionally set algebra between the two bitmaps and write/read round trips;
//   oracle = Validate()==nil, hook-level structure, independent strict decode of ToBytes.

var fzKeys = []uint64{0, 1, 2, 3, 0x7FFF, 0xFFFE, 0xFFFF, 5}
var fzLens = []uint64{1, 2, 3, 63, 64, 65, 1000, 4095, 4096, 4097, 30000, 65535, 65536, 65537, 131072, 200000}

type fzReader struct {
	d []byte
	i int
}

func (r *fzReader) more() bool { return r.i < len(r.d) }
func (r *fzReader) u8() uint64 {
	if r.i >= len(r.d) {
		return 0
	}
	v := r.d[r.i]
	r.i++
	return uint64(v)
}
func (r *fzReader) value() uint64 {
	k := fzKeys[r.u8()%uint64(len(fzKeys))]
	lo := r.u8()<<8 | r.u8()
	return k<<16 | lo
}
func (r *fzReader) span() (uint64, uint64) {
	s := r.value()
	e := s + fzLens[r.u8()%uint64(len(fzLens))]
	if e > model.Max32+1 {
		e = model.Max32 + 1
	}
	return s, e
}

// fuzzOps interprets a script; returns "" or the description of a violation.
func fuzzOps(data []byte, mode int) (msg string) {
	r := &fzReader{d: data}
	b := [2]*roaring.Bitmap{roaring.New(), roaring.New()}
	m := [2]*model.Set{model.New(), model.New()}
	var keep [][]byte
	var hist []string
	logf := func(f string, a ...interface{}) { hist = append(hist, fmt.Sprintf(f, a...)) }
	bad := func(f string, a ...interface{}) string {
		h := hist
		if len(h) > 70 {
			h = h[len(h)-70:]
		}
		return fmt.Sprintf("%s\n  history(%d steps): %v", fmt.Sprintf(f, a...), len(hist), h)
	}
	for steps := 0; r.more() && steps < 96; steps++ {
		op := r.u8()
		i := int(op>>7) & 1
		x, mx := b[i], m[i]
		nops := uint64(14)
		if mode == 1 {
			nops = 22
		}
		switch (op & 0x7F) % nops {
		case 0:
			v := r.value()
			logf("b%d.Add(%d)", i, v)
			x.Add(uint32(v))
			mx.Add(v)
		case 1:
			v := r.value()
			logf("b%d.Remove(%d)", i, v)
			x.Remove(uint32(v))
			mx.Remove(v)
		case 2:
			v := r.value()
			logf("b%d.CheckedAdd(%d)", i, v)
			want := !mx.Contains(v)
			if got := x.CheckedAdd(uint32(v)); got != want {
				return bad("CheckedAdd(%d)=%v, membership changed=%v", v, got, want)
			}
			mx.Add(v)
		case 3:
			v := r.value()
			logf("b%d.CheckedRemove(%d)", i, v)
			want := mx.Contains(v)
			if got := x.CheckedRemove(uint32(v)); got != want {
				return bad("CheckedRemove(%d)=%v, membership changed=%v", v, got, want)
			}
			mx.Remove(v)
		case 4:
			s, e := r.span()
			logf("b%d.AddRange(%d,%d)", i, s, e)
			x.AddRange(s, e)
			if e > s {
				mx.AddRange(s, e-1)
			}
		case 5:
			s, e := r.span()
			logf("b%d.RemoveRange(%d,%d)", i, s, e)
			x.RemoveRange(s, e)
			if e > s {
				mx.RemoveRange(s, e-1)
			}
		case 6:
			s, e := r.span()
			logf("b%d.Flip(%d,%d)", i, s, e)
			x.Flip(s, e)
			if e > s {
				mx.FlipRange(s, e-1)
			}
		case 7:
			logf("b%d.RunOptimize()", i)
			x.RunOptimize()
		case 8:
			logf("b%d=b%d.Clone()", 1-i, i)
			b[1-i] = x.Clone()
			m[1-i] = mx.Clone()
		case 9:
			on := r.u8()&1 == 1
			logf("b%d.SetCopyOnWrite(%v)", i, on)
			x.SetCopyOnWrite(on)
		case 10:
			logf("b%d.CloneCopyOnWriteContainers()", i)
			x.CloneCopyOnWriteContainers()
		case 11:
			// AddMany of a strided block (array growth, array->bitmap conversion)
			v := r.value()
			stride := r.u8()%9 + 1
			n := (r.u8()<<8 | r.u8()) % 6000
			vals := make([]uint32, 0, n)
			for k, w := uint64(0), v; k < n && w <= model.Max32; k, w = k+1, w+stride {
				vals = append(vals, uint32(w))
			}
			logf("b%d.AddMany(%d values from %d step %d)", i, len(vals), v, stride)
			x.AddMany(vals)
			mx.AddValues32(vals)
		case 12:
			// point removals walking down a window (trims runs without splitting)
			v := r.value()
			stride := r.u8()%5 + 1
			n := (r.u8()<<8 | r.u8()) % 3000
			logf("b%d.Remove x%d from %d step -%d", i, n, v, stride)
			for k, w := uint64(0), v; k < n; k, w = k+1, w-stride {
				x.Remove(uint32(w))
				mx.Remove(w)
				if w < stride {
					break
				}
			}
		case 13:
			if r.u8()%8 == 0 {
				logf("b%d.Clear()", i)
				x.Clear()
				m[i] = model.New()
			} else {
				v := r.value()
				logf("b%d.AddInt(%d)", i, v&0x7FFFFFFF)
				x.AddInt(int(v & 0x7FFFFFFF))
				mx.Add(v & 0x7FFFFFFF)
			}
		case 14, 15, 16, 17:
			o := int((op&0x7F)%nops) - 14
			logf("b%d.%s(b%d)", i, opNames[o], 1-i)
			nm := modelOp(o, mx, m[1-i])
			inplaceOp(o, x, b[1-i])
			m[i] = nm
		case 18:
			o := int(r.u8() % 4)
			logf("b%d=%s(b%d,b%d)", i, opNames[o], i, 1-i)
			b[i] = staticOp(o, x, b[1-i])
			m[i] = modelOp(o, mx, m[1-i])
		case 19:
			s, e := r.span()
			logf("b%d=Flip(b%d,%d,%d)", i, i, s, e)
			b[i] = roaring.Flip(x, s, e)
			if e > s {
				mx.FlipRange(s, e-1)
			}
		case 20:
			// write/read round trip (portable or frozen); the copy replaces the bitmap
			by, err := x.ToBytes()
			if err != nil {
				return bad("ToBytes of a library-made bitmap: %v", err)
			}
			nb := roaring.New()
			switch r.u8() % 3 {
			case 0:
				logf("b%d=ReadFrom(ToBytes(b%d))", i, i)
				_, err = nb.ReadFrom(bytes.NewReader(by))
			case 1:
				logf("b%d=FromBuffer(ToBytes(b%d))", i, i)
				_, err = nb.FromBuffer(by)
				keep = append(keep, by)
			default:
				logf("b%d=FrozenView(Freeze(b%d))", i, i)
				var fr []byte
				fr, err = x.Freeze()
				if err == nil {
					err = nb.FrozenView(fr)
					keep = append(keep, fr)
				}
			}
			if err != nil {
				return bad("reading back a library-made bitmap: %v", err)
			}
			if verr := nb.Validate(); verr != nil {
				return bad("round trip of a library-made bitmap fails Validate(): %v", verr)
			}
			b[i] = nb
		case 21:
			d := []int64{-65536, -1, 1, 65535, 65536, 65537}[r.u8()%6]
			if mx.Card() > 100000 {
				continue
			}
			logf("b%d=AddOffset64(b%d,%d)", i, i, d)
			b[i] = roaring.AddOffset64(x, d)
			m[i] = mx.Shift(d, model.Max32)
		}
		for j := 0; j < 2; j++ {
			if c := b[j].GetCardinality(); c != m[j].Card() {
				return bad("b%d: GetCardinality=%d, the replayed set has %d", j, c, m[j].Card())
			}
			if mode == 1 {
				if err := b[j].Validate(); err != nil {
					return bad("b%d made by public operations fails Validate(): %v", j, err)
				}
				if err := structure(b[j]); err != nil {
					return bad("b%d made by public operations is malformed: %v", j, err)
				}
			}
		}
	}
	for j := 0; j < 2; j++ {
		if d := live.Check(b[j], m[j]); d != "" {
			return bad("b%d differs from the replay of its history: %s", j, d)
		}
		if mode == 1 {
			by, err := b[j].ToBytes()
			if err != nil {
				return bad("b%d cannot be serialized: %v", j, err)
			}
			if _, _, err := spec.DecodePortable(by, true); err != nil {
				return bad("b%d: independent structural check of its serialization failed: %v", j, err)
			}
		}
	}
	_ = keep
	return ""
}

func fuzzSeeds(f *testing.F) {
	f.Add([]byte{})
	f.Add([]byte{4, 0, 0, 0, 12, 7, 5, 0, 0, 10, 3})                             // AddRange, RunOptimize, RemoveRange
	f.Add([]byte{11, 1, 0, 0, 1, 0x10, 0x00, 7, 12, 1, 0x20, 0, 0, 0x08, 0})      // AddMany block, RunOptimize, trim
	f.Add([]byte{4, 6, 0xFF, 0xF0, 13, 6, 6, 0xFF, 0xFF, 0, 8, 9, 1, 0x80 | 0, 6, 0, 1}) // top of range, clone, cow, add
	f.Add([]byte{4, 0, 0, 0, 12, 0x80 | 4, 0, 0x80, 0, 11, 14, 0x80 | 16, 18, 2, 20, 2})
}

func runFuzzOps(t *testing.T, data []byte, mode int, prop string) {
	if len(data) > 1024 {
		return
	}
	var msg string
	if p, st := inst.Try(func() { msg = fuzzOps(data, mode) }); p != nil {
		t.Fatalf("%s: panic inside the documented domain: %v [%s] script=%x", prop, p, st, data)
	}
	if msg != "" {
		t.Fatalf("%s: %s", prop, msg)
	}
}

// FuzzOps32 is the coverage-guided target of C02 (thorough tier).
func FuzzOps32(f *testing.F) {
	fuzzSeeds(f)
	f.Fuzz(func(t *testing.T, data []byte) { runFuzzOps(t, data, 0, "C02") })
}

// FuzzWellFormed32 is the coverage-guided target of C09 (thorough tier).
func FuzzWellFormed32(f *testing.F) {
	fuzzSeeds(f)
	f.Fuzz(func(t *testing.T, data []byte) { runFuzzOps(t, data, 1, "C09") })
}
