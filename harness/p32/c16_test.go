package p32

import (
	"fmt"
	"github.com/bits-and-blooms/bitset"
	"runtime"
	"testing"
	"unsafe"

	"github.com/RoaringBitmap/roaring/v2"
	"pgregory.net/rapid"

	"verifharness/gen"
	"verifharness/inst"
	"verifharness/live"
	"verifharness/model"
)

func denseOf(m *model.Set, words int) []uint64 {
	d := make([]uint64, words)
	for _, iv := range m.Intervals() {
		for v := iv.Lo; v <= iv.Hi; v++ {
			d[v>>6] |= 1 << (v & 63)
		}
	}
	return d
}

func setOfDense(d []uint64) *model.Set {
	var ivs []model.Iv
	for w, x := range d {
		for b := uint64(0); b < 64; b++ {
			if x&(1<<b) != 0 {
				v := uint64(w)*64 + b
				if n := len(ivs); n > 0 && ivs[n-1].Hi+1 == v {
					ivs[n-1].Hi = v
				} else {
					ivs = append(ivs, model.Iv{Lo: v, Hi: v})
				}
			}
		}
	}
	return model.FromIntervals(ivs)
}

func propC16Offset(t *rapid.T) {
	bs := gen.Bitmap(t, "S", gen.KindsValid, false)
	f := live.DrawForm(t, "form")
	lv := mustMake(t, bs, f)
	b, m := lv.B, lv.Model
	desc := fmt.Sprintf("%s as %s", bs, f)
	var d int64
	cls := ""
	switch rapid.IntRange(0, 6).Draw(t, "dclass") {
	case 0:
		d = int64(rapid.IntRange(-70000, 70000).Draw(t, "k")) * 65536
		if d <= -(1<<32) || d >= 1<<32 {
			d = 65536
		}
		cls = "multiple-of-65536"
	case 1:
		d = int64(rapid.IntRange(-70000, 70000).Draw(t, "small"))
		cls = "small"
	case 2:
		if !m.IsEmpty() {
			d = -int64(m.Min()) + int64(rapid.IntRange(-2, 2).Draw(t, "adj"))
		}
		cls = "min-to-zero"
	case 3:
		if !m.IsEmpty() {
			d = int64(model.Max32) - int64(m.Max()) + int64(rapid.IntRange(-2, 2).Draw(t, "adj"))
		}
		cls = "max-to-top"
	case 4:
		d = rapid.SampledFrom([]int64{-(1 << 32) + 1, (1 << 32) - 1, 1 << 31, -(1 << 31), 65535, 65537, -65535, -65537, 30000, -30000, 1, -1, 0}).Draw(t, "special")
		cls = "special"
	default:
		d = rapid.Int64Range(-(1<<32)+1, (1<<32)-1).Draw(t, "any")
		cls = "any"
	}
	if d <= -(1<<32) || d >= 1<<32 {
		d = 0
	}
	want := m.Shift(d, model.Max32)
	got := roaring.AddOffset64(b, d)
	if lv.Form == live.Frozen {
		runtime.GC()
	}
	if diff := live.Check(got, want); diff != "" {
		t.Fatalf("AddOffset64(b,%d) wrong: %s\n  b=%s\n  [%s]", d, diff, m, desc)
	}
	if err := got.Validate(); err != nil {
		inst.Count("C16", "offset-result-fails-Validate") // owned by C09; counted, not asserted here
	}
	if d >= 0 && d <= int64(model.Max32) {
		got32 := roaring.AddOffset(b, uint32(d))
		if diff := live.Check(got32, want); diff != "" {
			t.Fatalf("AddOffset(b,%d) wrong: %s\n  b=%s\n  [%s]", d, diff, m, desc)
		}
	}
	if diff := live.Check(b, m); diff != "" {
		t.Fatalf("AddOffset64(b,%d) changed its operand: %s [%s]", d, diff, desc)
	}
	if !lv.BufferIntact() {
		t.Fatalf("AddOffset64 wrote to the caller's buffer [%s]", desc)
	}
	// the result must be independent of the operand
	if !want.IsEmpty() {
		x := uint32(want.Min())
		got.Remove(x)
		got.Add(x ^ 1)
		if diff := live.Check(b, m); diff != "" {
			t.Fatalf("mutating AddOffset64's result changed the operand: %s [%s]", diff, desc)
		}
		// ... and a bitmap like any other: grow each of its first chunks in place (a value right behind the
		// chunk's largest one, a drawn one) and compare the whole result again
		wm := want.Clone()
		wm.Remove(uint64(x))
		wm.Add(uint64(x ^ 1))
		grown := ""
		for i, k := range wm.Keys16() {
			if i >= 6 {
				break
			}
			cw := wm.Window(uint64(k)<<16, uint64(k)<<16+65535)
			vals := []uint64{uint64(k)<<16 + gen.Low(t, fmt.Sprintf("grow%d", i))}
			if cw.Max() < uint64(k)<<16+65535 {
				vals = append(vals, cw.Max()+1)
			}
			for _, v := range vals {
				got.Add(uint32(v))
				wm.Add(v)
				grown += fmt.Sprintf(" Add(%d)", v)
			}
		}
		if diff := live.Check(got, wm); diff != "" {
			t.Fatalf("the result of AddOffset64(b,%d) misbehaves under later updates (%s): %s\n  b=%s\n  [%s]", d, grown, diff, m, desc)
		}
	}
	runtime.KeepAlive(lv)
	inst.Count("C16", "offset:"+cls)
	adjacent := false
	for i := 1; i < len(bs.Chunks); i++ {
		if bs.Chunks[i].Key == bs.Chunks[i-1].Key+1 {
			adjacent = true
		}
	}
	inst.Case("C16", d%65536 != 0 && adjacent, fmt.Sprintf("AddOffset64 d=%d %s", d, desc))
}

func propC16Flip(t *rapid.T) {
	bs := gen.Bitmap(t, "S", gen.KindsValid, false)
	f := live.DrawForm(t, "form")
	lv := mustMake(t, bs, f)
	b, m := lv.B, lv.Model
	desc := fmt.Sprintf("%s as %s", bs, f)
	s, e := drawRange(t, "r", m)
	want := m.Clone()
	if e > s {
		want.FlipRange(s, e-1)
	}
	got := roaring.Flip(b, s, e)
	if lv.Form == live.Frozen {
		runtime.GC()
	}
	if diff := live.Check(got, want); diff != "" {
		t.Fatalf("Flip(b,%d,%d) wrong: %s\n  b=%s\n  [%s]", s, e, diff, m, desc)
	}
	if diff := live.Check(b, m); diff != "" {
		t.Fatalf("Flip(b,%d,%d) changed its operand: %s [%s]", s, e, diff, desc)
	}
	// equals what in-place Flip produces on a clone
	c := b.Clone()
	c.Flip(s, e)
	if !c.Equals(got) {
		t.Fatalf("Flip(b,%d,%d) differs from in-place Flip on a clone [%s]", s, e, desc)
	}
	if s <= uint64(^uint(0)>>1) && e <= uint64(^uint(0)>>1) {
		gi := roaring.FlipInt(b, int(s), int(e))
		if !gi.Equals(got) {
			t.Fatalf("FlipInt(b,%d,%d) differs from Flip [%s]", s, e, desc)
		}
	}
	if !lv.BufferIntact() {
		t.Fatalf("Flip wrote to the caller's buffer [%s]", desc)
	}
	// independence, and the result is a bitmap like any other: take values out of several of its chunks
	if !want.IsEmpty() {
		x := uint32(want.Min())
		got.Remove(x)
		if diff := live.Check(b, m); diff != "" {
			t.Fatalf("mutating Flip's result changed the operand: %s [%s]", diff, desc)
		}
		wm := want.Clone()
		wm.Remove(uint64(x))
		keys := wm.Keys16()
		for i, k := range keys {
			if i%3 != 1 && i != len(keys)-1 {
				continue
			}
			cw := wm.Window(uint64(k)<<16, uint64(k)<<16+65535)
			if cw.IsEmpty() {
				continue
			}
			v := cw.Min() + (cw.Max()-cw.Min())/2
			got.Remove(uint32(v))
			wm.Remove(v)
			got.RemoveRange(cw.Min(), cw.Min()+3)
			wm.RemoveRange(cw.Min(), cw.Min()+2)
			if i > 12 {
				break
			}
		}
		if diff := live.Check(got, wm); diff != "" {
			t.Fatalf("the result of Flip(b,%d,%d) misbehaves under later removals: %s [%s]", s, e, diff, desc)
		}
	}
	runtime.KeepAlive(lv)
	inst.Count("C16", "flip")
	inst.Case("C16", e > s && (e-1)>>16 != s>>16 && !m.IsEmpty(), fmt.Sprintf("Flip [%d,%d) %s", s, e, desc))
}

func propC16Dense(t *rapid.T) {
	// (a) bitmap -> dense
	maxKey := rapid.IntRange(0, 5).Draw(t, "maxkey")
	keys := []uint16{}
	for k := 0; k <= maxKey; k++ {
		if rapid.IntRange(0, 2).Draw(t, "haskey") != 0 {
			keys = append(keys, uint16(k))
		}
	}
	bs := gen.BitmapWithKeys(t, "S", keys, gen.KindsValid)
	f := live.DrawForm(t, "form")
	lv := mustMake(t, bs, f)
	b, m := lv.B, lv.Model
	desc := fmt.Sprintf("%s as %s", bs, f)
	var wantWords uint64
	if !m.IsEmpty() {
		wantWords = (m.Max() + 64) / 64
	}
	if g := b.DenseSize(); g != wantWords {
		t.Fatalf("DenseSize=%d want %d [%s]", g, wantWords, desc)
	}
	// DenseSize over the whole key space (no vector is materialized here)
	{
		anyKeys := gen.Bitmap(t, "any", gen.KindsValid, false)
		av := mustMake(t, anyKeys, live.DrawForm(t, "anyform"))
		if rapid.IntRange(0, 3).Draw(t, "top") == 0 {
			top := rapid.SampledFrom([]uint32{0xFFFFFFFF, 0xFFFFFFFE, 0xFFFFFFC0, 0xFFFFFFBF, 0xFFFF0000}).Draw(t, "topv")
			av.B.Add(top)
			av.Model.Add(uint64(top))
		}
		var w uint64
		if !av.Model.IsEmpty() {
			w = (av.Model.Max() + 64) / 64
		}
		if g := av.B.DenseSize(); g != w {
			t.Fatalf("DenseSize=%d want %d for a bitmap with maximum %d [%s]", g, w, av.Model.Max(), anyKeys)
		}
		runtime.KeepAlive(av)
	}
	dense := b.ToDense()
	if uint64(len(dense)) != wantWords {
		t.Fatalf("len(ToDense)=%d want %d [%s]", len(dense), wantWords, desc)
	}
	if got := setOfDense(dense); !got.Equal(m) {
		t.Fatalf("ToDense bits differ: %s [%s]", model.Diff(m, got), desc)
	}
	// the returned vector belongs to the caller: it does not follow later changes of the bitmap, and writing to it
	// does not change the bitmap
	if len(dense) > 0 && !m.IsEmpty() {
		snapshot := append([]uint64(nil), dense...)
		c := b.Clone()
		probe := uint32(m.Min())
		c2 := b // the bitmap itself is used below: work on it only through reversible steps
		c2.Remove(probe)
		c2.Add(probe ^ 1)
		for i := range dense {
			if dense[i] != snapshot[i] {
				t.Fatalf("the vector returned by ToDense changed when the bitmap was modified afterwards (word %d) [%s]", i, desc)
			}
		}
		if m.Contains(uint64(probe ^ 1)) {
			// it was there before
		} else {
			c2.Remove(probe ^ 1)
		}
		c2.Add(probe)
		for i := range dense {
			dense[i] = ^dense[i]
		}
		if diff := live.Check(b, m); diff != "" {
			t.Fatalf("writing to the vector returned by ToDense changed the bitmap: %s [%s]", diff, desc)
		}
		copy(dense, snapshot)
		_ = c
	}
	wd := make([]uint64, wantWords)
	b.WriteDenseTo(wd)
	if got := setOfDense(wd); !got.Equal(m) {
		t.Fatalf("WriteDenseTo bits differ: %s [%s]", model.Diff(m, got), desc)
	}
	if bsb := b.ToBitSet(); bsb != nil {
		if got := setOfDense(bsb.Bytes()); !got.Equal(m) {
			t.Fatalf("ToBitSet bits differ: %s [%s]", model.Diff(m, got), desc)
		}
		if back := roaring.FromBitSet(bsb); back != nil {
			if d := live.Check(back, m); d != "" {
				t.Fatalf("FromBitSet(ToBitSet) differs: %s [%s]", d, desc)
			}
		}
	}
	// a bit set made by the caller: its length need not be a multiple of 64, the top bits sit in a partial last word
	{
		n := uint(rapid.SampledFrom([]int{1, 63, 64, 65, 100, 1000, 65536 + 10, 3*65536 + 4097}).Draw(t, "bitsetLen"))
		bsx := bitset.New(n)
		bm := model.New()
		for _, pos := range []uint{0, n - 1, n / 2, (n - 1) &^ 63, n / 3} {
			if pos < n {
				bsx.Set(pos)
				bm.Add(uint64(pos))
			}
		}
		if rapid.Bool().Draw(t, "bitsetBlock") && n > 200 {
			for pos := n - 150; pos < n; pos += 2 {
				bsx.Set(pos)
				bm.Add(uint64(pos))
			}
		}
		back := roaring.FromBitSet(bsx)
		if back == nil {
			t.Fatalf("FromBitSet(bit set of length %d) returned nil", n)
		}
		if d := live.Check(back, bm); d != "" {
			t.Fatalf("FromBitSet(bit set of length %d with bits %s) differs: %s", n, bm, d)
		}
		inst.Count("C16", "frombitset-own-bitset")
	}
	// FromDense(ToDense) = id, both copy modes
	for _, cp := range []bool{true, false} {
		back := roaring.FromDense(dense, cp)
		if d := live.Check(back, m); d != "" {
			t.Fatalf("FromDense(ToDense(b),%v) differs: %s [%s]", cp, d, desc)
		}
	}
	runtime.KeepAlive(lv)

	// (b) generated word slices -> bitmap, doCopy in {true,false}, words in read-only guarded memory
	nwords := rapid.SampledFrom([]int{0, 1, 5, 63, 64, 65, 1023, 1024, 1025, 2047, 2048, 2049, 3000, 4096}).Draw(t, "nwords")
	words := make([]uint64, nwords)
	pal := []uint64{0, 0, ^uint64(0), rapid.Uint64().Draw(t, "w0"), 1, 1 << 63, 0x5555555555555555}
	period := rapid.IntRange(1, 9).Draw(t, "period")
	pat := make([]int, period)
	for i := range pat {
		pat[i] = rapid.IntRange(0, len(pal)-1).Draw(t, "pat")
	}
	for i := range words {
		words[i] = pal[pat[i%period]]
	}
	if nwords > 0 && rapid.Bool().Draw(t, "zerotail") {
		words[nwords-1] = 0
	}
	wm := setOfDense(words)
	doCopy := rapid.Bool().Draw(t, "doCopy")
	raw := unsafe.Slice((*byte)(unsafe.Pointer(unsafe.SliceData(words))), 8*nwords)
	g := inst.NewGuard(raw, false)
	defer g.Free()
	gw := unsafe.Slice((*uint64)(unsafe.Pointer(unsafe.SliceData(g.Data))), nwords)
	if nwords == 0 {
		gw = nil
	}
	g.ReadOnly()
	restore := inst.FaultsAsPanics()
	defer restore()
	var fb *roaring.Bitmap
	if rapid.Bool().Draw(t, "method") {
		fb = roaring.New()
		fb.FromDense(gw, doCopy)
	} else {
		fb = roaring.FromDense(gw, doCopy)
	}
	ddesc := fmt.Sprintf("FromDense(%d words period=%v pal=%x, doCopy=%v)", nwords, pat, pal, doCopy)
	if d := live.Check(fb, wm); d != "" {
		t.Fatalf("%s wrong: %s", ddesc, d)
	}
	if err := fb.Validate(); err != nil {
		t.Fatalf("%s: result does not validate: %v", ddesc, err)
	}
	// mutate heavily; the caller's words are read-only: a stray write faults
	mm := wm.Clone()
	cl := fb.Clone()
	for i := 0; i < 12; i++ {
		x := gen.Value32(t, "mx", mm)
		if x > uint32(nwords*64+70000) {
			x %= uint32(nwords*64 + 70000)
		}
		switch rapid.IntRange(0, 4).Draw(t, "mop") {
		case 0:
			fb.Add(x)
			mm.Add(uint64(x))
		case 1:
			fb.Remove(x)
			mm.Remove(uint64(x))
		case 2:
			fb.Flip(uint64(x), uint64(x)+3000)
			mm.FlipRange(uint64(x), uint64(x)+2999)
		case 3:
			fb.RemoveRange(uint64(x), uint64(x)+70000)
			mm.RemoveRange(uint64(x), uint64(x)+69999)
		default:
			o := roaring.BitmapOf(x, x+1, x+64)
			fb.Xor(o)
			mm.FlipRange(uint64(x), uint64(x)+1)
			mm.FlipRange(uint64(x)+64, uint64(x)+64)
		}
	}
	fb.RunOptimize()
	if d := live.Check(fb, mm); d != "" {
		t.Fatalf("%s then mutations: %s", ddesc, d)
	}
	if d := live.Check(cl, wm); d != "" {
		t.Fatalf("%s: clone changed when the original was mutated: %s", ddesc, d)
	}
	for i := range gw {
		if gw[i] != words[i] {
			t.Fatalf("%s: caller's word %d changed", ddesc, i)
		}
	}
	inst.Count("C16", fmt.Sprintf("dense:doCopy=%v", doCopy))
	inst.Case("C16", nwords%1024 != 0 && nwords > 0, ddesc+" / ToDense of "+desc)
}

func TestC16Offset(t *testing.T) { rapid.Check(t, propC16Offset) }
func TestC16Flip(t *testing.T)   { rapid.Check(t, propC16Flip) }
func TestC16Dense(t *testing.T)  { rapid.Check(t, propC16Dense) }

// TestRegressC16DenseTop: the one bitmap whose dense form needs all 2^26 words (maximum 2^32-1).
func TestRegressC16DenseTop(t *testing.T) {
	b := roaring.BitmapOf(7, 1<<31, 0xFFFFFFFF)
	if g := b.DenseSize(); g != 1<<26 {
		t.Fatalf("DenseSize with maximum 0xFFFFFFFF = %d, want %d", g, 1<<26)
	}
	d := b.ToDense()
	if len(d) != 1<<26 || d[0] != 1<<7 || d[1<<25] != 1 || d[1<<26-1] != 1<<63 {
		t.Fatalf("ToDense with maximum 0xFFFFFFFF: %d words", len(d))
	}
	back := roaring.FromDense(d, false)
	if !back.Equals(b) {
		t.Fatalf("FromDense(ToDense(b)) differs for maximum 0xFFFFFFFF: %v", back.ToArray())
	}
}
