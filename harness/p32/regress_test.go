package p32

import (
	"testing"

	"github.com/RoaringBitmap/roaring/v2"
)

// Literal regression cases for the findings recorded as "fixed" in KNOWN_FINDINGS.json.
// They bypass rapid and run once per check (shard 0); a fixed entry suppresses nothing.

func TestRegressC04NextUnsetBit(t *testing.T) {
	b := roaring.New()
	b.AddRange(65537, 69634) // 4097 values: a bitmap chunk
	it := b.UnsetIterator(65537, 365537)
	if !it.HasNext() || it.Next() != 69634 {
		t.Fatalf("UnsetIterator(65537,365537) over [65537,69634) must start at 69634")
	}
	for i := 0; i < 70000 && it.HasNext(); i++ {
		if v := it.Next(); b.Contains(v) {
			t.Fatalf("UnsetIterator yielded the member %d", v)
		}
	}
}

func TestRegressC15AbsentValues(t *testing.T) {
	type q struct {
		b    *roaring.Bitmap
		t    uint32
		next bool
		want int64
	}
	full0 := roaring.New()
	full0.AddRange(0, 65536)
	full0p := roaring.New()
	full0p.AddRange(0, 65537)
	top := roaring.New()
	top.AddRange(4294901760, 4294967296)
	gap := roaring.BitmapOf(65535)
	gap.AddRange(131072, 131082)
	for i, c := range []q{
		{roaring.BitmapOf(70000, 70001), 70000, true, 70002},
		{full0, 0, true, 65536},
		{full0p, 5, true, 65537},
		{top, 4294901760, true, -1},
		{top, 4294967295, false, 4294901759},
		{gap, 131075, false, 131071},
		{full0, 65535, false, -1},
	} {
		var g int64
		if c.next {
			g = c.b.NextAbsentValue(c.t)
		} else {
			g = c.b.PreviousAbsentValue(c.t)
		}
		if g != c.want {
			t.Fatalf("case %d: absent-value query at %d (next=%v) = %d, want %d", i, c.t, c.next, g, c.want)
		}
	}
}

func TestRegressC07Aggregates(t *testing.T) {
	a := roaring.BitmapOf(1, 2, 3)
	if roaring.HeapOr(a) == a || roaring.HeapXor(a) == a {
		t.Fatalf("HeapOr/HeapXor of a one-element list returned the input itself")
	}
	e, b := roaring.New(), roaring.BitmapOf(70000)
	list := []*roaring.Bitmap{a, e, b}
	roaring.ParOr(2, list...)
	if list[0] != a || list[1] != e || list[2] != b {
		t.Fatalf("ParOr rewrote the caller's slice")
	}
	// ParHeapOr: single-owner keys must not be shared with the input
	r := roaring.ParHeapOr(1, a, b)
	r.Add(5)
	if a.Contains(5) {
		t.Fatalf("mutating ParHeapOr's result changed an input")
	}
	// in-place Xor must not touch its argument
	arr := roaring.BitmapOf(1, 2, 3)
	big := roaring.New()
	big.AddRange(0, 10000)
	big.Remove(5000) // bitmap chunk
	before := big.Clone()
	arr.Xor(big)
	if !big.Equals(before) {
		t.Fatalf("a.Xor(b) changed b")
	}
	// ParOr interior insert shares with the input
	x := roaring.BitmapOf(1, 7<<16+1)
	y := roaring.BitmapOf(6<<16 + 3)
	res := roaring.ParOr(1, x, x, y)
	y.Add(6<<16 + 4)
	if res.Contains(6<<16 + 4) {
		t.Fatalf("mutating an input of ParOr changed the result")
	}
}

func TestRegressC11ParOrTopOfKeySpace(t *testing.T) {
	a, b := roaring.New(), roaring.New()
	for k := uint32(65519); k <= 65535; k++ {
		a.Add(k<<16 + 1)
		b.Add(k<<16 + 2)
	}
	for _, w := range []int{1, 2, 3, 4, 7} {
		r := roaring.ParOr(w, a, b)
		if r.GetCardinality() != 34 || !r.Equals(roaring.Or(a, b)) {
			t.Fatalf("ParOr(%d) over keys 65519..65535 has %d values, want 34", w, r.GetCardinality())
		}
	}
}

func TestRegressC09Malformed(t *testing.T) {
	check := func(name string, b *roaring.Bitmap) {
		if err := b.Validate(); err != nil {
			t.Fatalf("%s: Validate: %v", name, err)
		}
		if _, err := b.ToBytes(); err != nil {
			t.Fatalf("%s: ToBytes: %v", name, err)
		}
	}
	a := roaring.BitmapOf(0)
	a.AddRange(65536, 131072)
	a.RunOptimize()
	check("AddOffset64(-1)", roaring.AddOffset64(a, -1))
	big := roaring.New()
	for i := uint32(0); i < 10000; i += 2 {
		big.Add(i)
	}
	check("AddOffset64(30000) of a bitmap chunk", roaring.AddOffset64(big, 30000))
	check("Flip(Flip)", roaring.Flip(roaring.Flip(roaring.New(), 65534, 131070), 0, 131072))
	r := roaring.New()
	r.AddRange(0, 4)
	r.RunOptimize()
	r.AddRange(10, 11)
	check("AddRange on a run chunk", r)
	r2 := roaring.New()
	r2.AddRange(131072, 131076)
	r2.Add(1)
	r2.RunOptimize()
	r2.RemoveRange(65537, 131075)
	check("RemoveRange trimming a run", r2)
	x1, x2 := roaring.New(), roaring.New()
	for i := uint64(0); i < 1100; i++ {
		x1.AddRange(i*40, i*40+3)
		x2.AddRange(i*40+20, i*40+23)
	}
	x1.RunOptimize()
	x2.RunOptimize()
	check("Or(run,run)", roaring.Or(x1, x2))
	full := roaring.New()
	full.AddRange(0, 65536)
	p, q := roaring.BitmapOf(1, 2, 3), roaring.BitmapOf(5, 6)
	p.AddRange(100, 3000)
	full.AndAny(p, q)
	check("AndAny on a full run chunk", full)
}
