package p32

import (
	"bytes"
	"fmt"
	"runtime"
	"testing"

	"github.com/RoaringBitmap/roaring/v2"
	"pgregory.net/rapid"

	"verifharness/gen"
	"verifharness/inst"
	"verifharness/live"
	"verifharness/model"
)

// argClass names where a query argument falls relative to the set.
func argClass(m *model.Set, x uint64) string {
	if m.IsEmpty() {
		return "empty"
	}
	switch {
	case m.Contains(x):
		return "element"
	case x < m.Min():
		return "below-min"
	case x > m.Max():
		return "above-max"
	}
	if x&0xFFFF == 0 || x&0xFFFF == 0xFFFF {
		return "chunk-edge"
	}
	if !m.Window(x&^0xFFFF, x|0xFFFF).IsEmpty() {
		return "gap-in-chunk"
	}
	return "gap-between-chunks"
}

func propC03(t *rapid.T) {
	var lv *live.Live
	var desc string
	var f live.Form
	if rapid.IntRange(0, 2).Draw(t, "viaHistory") == 0 {
		// a bitmap with a past: generated spec, then mutations / algebra / aggregates (representation depends on the history)
		lv, desc = live.History(t, "S", true)
		f = lv.Form
		inst.Count("C03", "source:history")
	} else {
		bs := gen.Bitmap(t, "S", gen.KindsValid, true)
		f = live.DrawForm(t, "form")
		lv = mustMake(t, bs, f)
		desc = fmt.Sprintf("%s as %s", bs, f)
	}
	b, m := lv.B, lv.Model
	fail := func(format string, a ...interface{}) {
		t.Fatalf("%s\n  set=%s\n  [%s]", fmt.Sprintf(format, a...), m, desc)
	}
	before, err := b.ToBytes()
	if err != nil {
		fail("ToBytes: %v", err)
	}
	sumBefore := b.Checksum()
	classes := map[string]bool{}
	args := ""

	if d := live.Check(b, m); d != "" { // ToArray, GetCardinality, IsEmpty
		fail("contents: %s", d)
	}
	n := m.Card()
	if n > 0 {
		if g := b.Minimum(); uint64(g) != m.Min() {
			fail("Minimum=%d want %d", g, m.Min())
		}
		if g := b.Maximum(); uint64(g) != m.Max() {
			fail("Maximum=%d want %d", g, m.Max())
		}
	}
	// ToExistingArray with an exactly sized slice
	if n <= 1<<21 {
		arr := make([]uint32, n)
		out := b.ToExistingArray(&arr)
		want := m.ToSlice32()
		if len(*out) != len(want) {
			fail("ToExistingArray length %d want %d", len(*out), len(want))
		}
		for i := range want {
			if (*out)[i] != want[i] {
				fail("ToExistingArray[%d]=%d want %d", i, (*out)[i], want[i])
			}
		}
	}
	for i := 0; i < 12; i++ {
		x := gen.Value32(t, "x", m)
		classes[argClass(m, uint64(x))] = true
		args += fmt.Sprintf(" x=%d", x)
		if g, w := b.Contains(x), m.Contains(uint64(x)); g != w {
			fail("Contains(%d)=%v want %v", x, g, w)
		}
		if g, w := b.ContainsInt(int(x)), m.Contains(uint64(x)); g != w {
			fail("ContainsInt(%d)=%v want %v", x, g, w)
		}
		if g, w := b.Rank(x), m.Rank(uint64(x)); g != w {
			fail("Rank(%d)=%d want %d", x, g, w)
		}
	}
	selArgs := []uint64{0, n - 1, n, n + 1, 65535, 65536, model.Max32}
	for i := 0; i < 4; i++ {
		if n > 0 {
			selArgs = append(selArgs, uint64(rapid.Uint64Range(0, n-1).Draw(t, "seli")))
		}
	}
	for _, i := range selArgs {
		if i > model.Max32 {
			continue
		}
		g, err := b.Select(uint32(i))
		w, ok := m.Select(i)
		if ok != (err == nil) {
			fail("Select(%d) err=%v but model has element: %v (card %d)", i, err, ok, n)
		}
		if ok && uint64(g) != w {
			fail("Select(%d)=%d want %d", i, g, w)
		}
	}
	for i := 0; i < 8; i++ {
		lo := gen.Value33(t, "a", m, true)
		hi := gen.Value33(t, "b", m, true)
		if i%2 == 0 && lo > hi {
			lo, hi = hi, lo
		}
		args += fmt.Sprintf(" [%d,%d)", lo, hi)
		classes[argClass(m, lo)] = true
		var w uint64
		if hi > lo {
			w = m.CountRange(lo, hi-1)
		}
		if g := b.CardinalityInRange(lo, hi); g != w {
			fail("CardinalityInRange(%d,%d)=%d want %d", lo, hi, g, w)
		}
		if g := b.IntersectsWithInterval(lo, hi); g != (w > 0) {
			fail("IntersectsWithInterval(%d,%d)=%v want %v", lo, hi, g, w > 0)
		}
	}

	// Equals against other bitmaps
	type other struct {
		name string
		m    *model.Set
	}
	others := []other{{"same-set-other-representation", m.Clone()}, {"empty", model.New()}}
	if n > 0 {
		x, _ := m.Select(uint64(rapid.Uint64Range(0, n-1).Draw(t, "victim")))
		o := m.Clone()
		o.Remove(x)
		others = append(others, other{"one-removed", o})
		o2 := o.Clone()
		if y, ok := m.NextAbsent(x, model.Max32); ok {
			o2.Add(y)
			others = append(others, other{"one-replaced-same-cardinality", o2})
		}
		o3 := m.Shift(65536, model.Max32)
		others = append(others, other{"same-shape-other-keys", o3})
	}
	y := gen.Value32(t, "extra", m)
	oa := m.Clone()
	oa.Add(uint64(y))
	others = append(others, other{"one-added", oa})
	for i, o := range others {
		of := live.DrawForm(t, fmt.Sprintf("oform%d", i))
		ol := mustMake(t, gen.FromSet(t, fmt.Sprintf("o%d", i), o.m, gen.KindsValid), of)
		w := o.m.Equal(m)
		if g := b.Equals(ol.B); g != w {
			fail("Equals(%s as %s)=%v want %v; other=%s", o.name, of, g, w, o.m)
		}
		if g := ol.B.Equals(b); g != w {
			fail("(%s as %s).Equals(this)=%v want %v; other=%s", o.name, of, g, w, o.m)
		}
		runtime.KeepAlive(ol)
	}
	if b.Equals("not a bitmap") {
		fail("Equals(non-bitmap) = true")
	}

	// Checksum across Clone and serialize/deserialize
	if g := b.Clone().Checksum(); g != sumBefore {
		fail("Checksum of Clone %d != %d", g, sumBefore)
	}
	rt := roaring.New()
	if _, err := rt.ReadFrom(bytes.NewReader(before)); err != nil {
		fail("ReadFrom(ToBytes): %v", err)
	}
	if g := rt.Checksum(); g != sumBefore {
		fail("Checksum after ToBytes/ReadFrom %d != %d", g, sumBefore)
	}
	rt2 := roaring.New()
	if _, err := rt2.FromBuffer(before); err != nil {
		fail("FromBuffer(ToBytes): %v", err)
	}
	if g := rt2.Checksum(); g != sumBefore {
		fail("Checksum after ToBytes/FromBuffer %d != %d", g, sumBefore)
	}

	// purity
	after, err := b.ToBytes()
	if err != nil || !bytes.Equal(before, after) {
		fail("queries changed the bitmap's serialized form (err=%v)", err)
	}
	if b.Checksum() != sumBefore {
		fail("queries changed the checksum")
	}
	if !lv.BufferIntact() {
		fail("queries wrote to the caller's buffer")
	}
	runtime.KeepAlive(lv)
	for c := range classes {
		inst.Count("C03", "arg:"+c)
	}
	inst.Count("C03", "form:"+f.String())
	for _, c := range b.VerifChunks() {
		inst.Count("C03", "chunk:"+kindName[c.Kind])
	}
	inst.Case("C03", n > 0 && len(classes) >= 3, desc+args)
}

func TestC03(t *testing.T) { rapid.Check(t, propC03) }
