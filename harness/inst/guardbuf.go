package inst

import (
	"fmt"
	"runtime/debug"
	"syscall"
)

// Guard is caller-owned memory placed in an anonymous mapping between two
// PROT_NONE pages. With AtEnd the data ends flush against the trailing guard
// page (an over-read faults), otherwise it starts right after the leading
// guard page (an under-read faults). ReadOnly() makes every stray write fault.
// After Free() any surviving reference faults on first use.
type Guard struct {
	all   []byte
	Data  []byte
	freed bool
}

const page = 4096

func NewGuard(data []byte, atEnd bool) *Guard {
	n := len(data)
	pages := (n + page - 1) / page
	if pages == 0 {
		pages = 1
	}
	all, err := syscall.Mmap(-1, 0, (pages+2)*page, syscall.PROT_READ|syscall.PROT_WRITE, syscall.MAP_ANON|syscall.MAP_PRIVATE)
	if err != nil {
		panic(fmt.Sprintf("harness: mmap: %v", err))
	}
	if err := syscall.Mprotect(all[:page], syscall.PROT_NONE); err != nil {
		panic(err)
	}
	if err := syscall.Mprotect(all[(pages+1)*page:], syscall.PROT_NONE); err != nil {
		panic(err)
	}
	g := &Guard{all: all}
	if atEnd {
		g.Data = all[(pages+1)*page-n : (pages+1)*page : (pages+1)*page]
	} else {
		g.Data = all[page : page+n : page+n]
	}
	copy(g.Data, data)
	return g
}

// ReadOnly write-protects the data pages.
func (g *Guard) ReadOnly() {
	if err := syscall.Mprotect(g.all[page:len(g.all)-page], syscall.PROT_READ); err != nil {
		panic(err)
	}
}

// Writable re-enables writes (for the scribble-after-detach step).
func (g *Guard) Writable() {
	if err := syscall.Mprotect(g.all[page:len(g.all)-page], syscall.PROT_READ|syscall.PROT_WRITE); err != nil {
		panic(err)
	}
}

func (g *Guard) Free() {
	if !g.freed {
		g.freed = true
		syscall.Munmap(g.all)
	}
}

// FaultsAsPanics makes a memory fault in the *current goroutine* a recoverable
// panic instead of a crash. Returns a restore function.
func FaultsAsPanics() func() {
	old := debug.SetPanicOnFault(true)
	return func() { debug.SetPanicOnFault(old) }
}
