package inst

import (
	"runtime"
	"strings"
)

func shortStack() string {
	buf := make([]byte, 16<<10)
	n := runtime.Stack(buf, false)
	lines := strings.Split(string(buf[:n]), "\n")
	var keep []string
	for _, l := range lines {
		if strings.Contains(l, "roaring") || strings.Contains(l, "verifharness") {
			keep = append(keep, strings.TrimSpace(l))
		}
		if len(keep) > 24 {
			break
		}
	}
	return strings.Join(keep, " | ")
}
