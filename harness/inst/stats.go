// Package inst holds the instruments shared by the property tests: coverage
// statistics for the evidence files, panic capture, guarded buffers.
package inst

import (
	"encoding/binary"
	"encoding/json"
	"fmt"
	"hash/fnv"
	"os"
	"sort"
	"strings"
	"sync"
	"testing"
)

type propStats struct {
	Evaluations int            `json:"evaluations"`
	Nontrivial  int            `json:"nontrivial_cases"`
	Classes     map[string]int `json:"classes"`
	Samples     []string       `json:"samples"`
	hashes      map[uint64]struct{}
}

var (
	mu    sync.Mutex
	props = map[string]*propStats{}
	known []string
)

const maxHashes = 400000
const maxSamples = 6

func get(prop string) *propStats {
	p := props[prop]
	if p == nil {
		p = &propStats{Classes: map[string]int{}, hashes: map[uint64]struct{}{}}
		props[prop] = p
	}
	return p
}

// Hash is FNV-64a of the canonical description of a case.
func Hash(desc string) uint64 {
	h := fnv.New64a()
	h.Write([]byte(desc))
	return h.Sum64()
}

// Case records one completed (passed) generated case. desc is the canonical
// text of the case; nontrivial is the property's stated rule applied to it.
func Case(prop string, nontrivial bool, desc string) {
	mu.Lock()
	defer mu.Unlock()
	p := get(prop)
	p.Evaluations++
	if !nontrivial {
		return
	}
	p.Nontrivial++
	if len(p.hashes) < maxHashes {
		p.hashes[Hash(desc)] = struct{}{}
	}
	if len(p.Samples) < maxSamples && (p.Nontrivial%37 == 1 || len(p.Samples) == 0) {
		if len(desc) > 1500 {
			desc = desc[:1500] + "…"
		}
		p.Samples = append(p.Samples, desc)
	}
}

// Count bumps a class counter (what the generator actually produced).
func Count(prop, class string) { CountN(prop, class, 1) }

func CountN(prop, class string, n int) {
	mu.Lock()
	get(prop).Classes[class] += n
	mu.Unlock()
}

// Known records that a listed known finding reproduced (printed by the driver
// as a KNOWN-FINDING line).
func Known(prop, what string) {
	mu.Lock()
	defer mu.Unlock()
	s := "property=" + prop + " " + what
	for _, k := range known {
		if k == s {
			return
		}
	}
	known = append(known, s)
}

// Flush writes the statistics where the driver asked for them.
func Flush() {
	path := os.Getenv("VERIF_STATS")
	if path == "" {
		return
	}
	mu.Lock()
	defer mu.Unlock()
	out := map[string]interface{}{"props": props, "known": known}
	b, _ := json.Marshal(out)
	os.WriteFile(path, b, 0o644)
	for name, p := range props {
		hs := make([]uint64, 0, len(p.hashes))
		for h := range p.hashes {
			hs = append(hs, h)
		}
		sort.Slice(hs, func(i, j int) bool { return hs[i] < hs[j] })
		buf := make([]byte, 8*len(hs))
		for i, h := range hs {
			binary.LittleEndian.PutUint64(buf[8*i:], h)
		}
		os.WriteFile(fmt.Sprintf("%s.%s.hashes", path, name), buf, 0o644)
	}
}

// Main is the TestMain body of every property package.
func Main(m *testing.M) {
	code := m.Run()
	Flush()
	os.Exit(code)
}

// Try runs f and reports a panic as a value plus a short stack.
func Try(f func()) (p interface{}, stack string) {
	defer func() {
		if r := recover(); r != nil {
			if strings.HasPrefix(fmt.Sprintf("%T", r), "rapid.") {
				panic(r) // rapid's own control flow (invalid data / stop test), not the library's
			}
			p = r
			stack = shortStack()
		}
	}()
	f()
	return nil, ""
}
