// Package model holds the reference models the properties are judged against.
// Nothing here imports roaring. Every operation is a linear merge over a sorted
// list of disjoint, non-adjacent closed intervals; no cleverness on purpose.
package model

import (
	"fmt"
	"math"
	"sort"
	"strings"
)

// Iv is a closed interval [Lo,Hi].
type Iv struct{ Lo, Hi uint64 }

// Set is a set of uint64 kept as sorted, disjoint, non-adjacent closed intervals.
type Set struct{ iv []Iv }

const Max32 = uint64(math.MaxUint32)
const Max64 = uint64(math.MaxUint64)

func New() *Set { return &Set{} }

func FromValues(vs []uint64) *Set {
	s := New()
	c := append([]uint64(nil), vs...)
	sort.Slice(c, func(i, j int) bool { return c[i] < c[j] })
	for _, v := range c {
		n := len(s.iv)
		if n > 0 && (s.iv[n-1].Hi >= v) {
			continue
		}
		if n > 0 && s.iv[n-1].Hi+1 == v {
			s.iv[n-1].Hi = v
			continue
		}
		s.iv = append(s.iv, Iv{v, v})
	}
	return s
}

func FromValues32(vs []uint32) *Set {
	c := make([]uint64, len(vs))
	for i, v := range vs {
		c[i] = uint64(v)
	}
	return FromValues(c)
}

func FromIntervals(ivs []Iv) *Set {
	c := make([]Iv, 0, len(ivs))
	for _, iv := range ivs {
		if iv.Lo <= iv.Hi {
			c = append(c, iv)
		}
	}
	sort.Slice(c, func(i, j int) bool { return c[i].Lo < c[j].Lo })
	return &Set{iv: normalize(c)}
}

func (s *Set) Clone() *Set { return &Set{iv: append([]Iv(nil), s.iv...)} }

func (s *Set) Intervals() []Iv { return s.iv }

func (s *Set) IsEmpty() bool { return len(s.iv) == 0 }

// Card returns the number of elements (saturating at MaxUint64 for the full universe).
func (s *Set) Card() uint64 {
	var n uint64
	for _, iv := range s.iv {
		w := iv.Hi - iv.Lo
		if w == Max64 {
			return Max64
		}
		n += w + 1
	}
	return n
}

func (s *Set) Equal(o *Set) bool {
	if len(s.iv) != len(o.iv) {
		return false
	}
	for i := range s.iv {
		if s.iv[i] != o.iv[i] {
			return false
		}
	}
	return true
}

// find returns the index of the first interval with Hi >= x.
func (s *Set) find(x uint64) int {
	return sort.Search(len(s.iv), func(i int) bool { return s.iv[i].Hi >= x })
}

func (s *Set) Contains(x uint64) bool {
	i := s.find(x)
	return i < len(s.iv) && s.iv[i].Lo <= x
}

func normalize(in []Iv) []Iv {
	// in is sorted by Lo; merge overlapping/adjacent
	out := make([]Iv, 0, len(in))
	for _, iv := range in {
		n := len(out)
		if n > 0 {
			last := &out[n-1]
			if last.Hi == Max64 || iv.Lo <= last.Hi+1 {
				if iv.Hi > last.Hi {
					last.Hi = iv.Hi
				}
				continue
			}
		}
		out = append(out, iv)
	}
	return out
}

func Or(a, b *Set) *Set {
	all := make([]Iv, 0, len(a.iv)+len(b.iv))
	i, j := 0, 0
	for i < len(a.iv) || j < len(b.iv) {
		if j >= len(b.iv) || (i < len(a.iv) && a.iv[i].Lo <= b.iv[j].Lo) {
			all = append(all, a.iv[i])
			i++
		} else {
			all = append(all, b.iv[j])
			j++
		}
	}
	return &Set{iv: normalize(all)}
}

func And(a, b *Set) *Set {
	var out []Iv
	i, j := 0, 0
	for i < len(a.iv) && j < len(b.iv) {
		lo := a.iv[i].Lo
		if b.iv[j].Lo > lo {
			lo = b.iv[j].Lo
		}
		hi := a.iv[i].Hi
		if b.iv[j].Hi < hi {
			hi = b.iv[j].Hi
		}
		if lo <= hi {
			out = append(out, Iv{lo, hi})
		}
		if a.iv[i].Hi < b.iv[j].Hi {
			i++
		} else {
			j++
		}
	}
	return &Set{iv: out} // pieces of disjoint non-adjacent intervals stay non-adjacent
}

func AndNot(a, b *Set) *Set {
	var out []Iv
	j := 0
	for _, x := range a.iv {
		lo := x.Lo
		dead := false
		for j < len(b.iv) && b.iv[j].Hi < lo {
			j++
		}
		k := j
		for k < len(b.iv) && b.iv[k].Lo <= x.Hi {
			y := b.iv[k]
			if y.Lo > lo {
				out = append(out, Iv{lo, y.Lo - 1})
			}
			if y.Hi >= x.Hi {
				dead = true
				break
			}
			lo = y.Hi + 1
			k++
		}
		if !dead {
			out = append(out, Iv{lo, x.Hi})
		}
	}
	return &Set{iv: out}
}

func Xor(a, b *Set) *Set { return Or(AndNot(a, b), AndNot(b, a)) }

// splice replaces intervals [i,j) by repl.
func (s *Set) splice(i, j int, repl ...Iv) {
	d := len(repl) - (j - i)
	if d == 0 {
		copy(s.iv[i:j], repl)
		return
	}
	n := len(s.iv)
	if d > 0 {
		s.iv = append(s.iv, make([]Iv, d)...)
	}
	copy(s.iv[j+d:], s.iv[j:n])
	copy(s.iv[i:], repl)
	s.iv = s.iv[:n+d]
}

// AddRange adds the closed interval [lo,hi]; no-op if lo>hi.
func (s *Set) AddRange(lo, hi uint64) {
	if lo > hi {
		return
	}
	// first interval that overlaps or is adjacent on the left: Hi >= lo-1
	l := lo
	if l > 0 {
		l--
	}
	i := s.find(l)
	// first interval strictly beyond hi+1: Lo > hi+1
	j := i
	for j < len(s.iv) && (hi == Max64 || s.iv[j].Lo <= hi+1) {
		j++
	}
	nlo, nhi := lo, hi
	if i < j {
		if s.iv[i].Lo < nlo {
			nlo = s.iv[i].Lo
		}
		if s.iv[j-1].Hi > nhi {
			nhi = s.iv[j-1].Hi
		}
	}
	s.splice(i, j, Iv{nlo, nhi})
}

func (s *Set) RemoveRange(lo, hi uint64) {
	if lo > hi {
		return
	}
	i := s.find(lo)
	j := i
	for j < len(s.iv) && s.iv[j].Lo <= hi {
		j++
	}
	if i == j {
		return
	}
	var repl []Iv
	if s.iv[i].Lo < lo {
		repl = append(repl, Iv{s.iv[i].Lo, lo - 1})
	}
	if s.iv[j-1].Hi > hi {
		repl = append(repl, Iv{hi + 1, s.iv[j-1].Hi})
	}
	s.splice(i, j, repl...)
}

func (s *Set) FlipRange(lo, hi uint64) {
	if lo > hi {
		return
	}
	s.iv = Xor(s, &Set{iv: []Iv{{lo, hi}}}).iv
}

// Add returns true if x was absent.
func (s *Set) Add(x uint64) bool {
	if s.Contains(x) {
		return false
	}
	s.AddRange(x, x)
	return true
}

// Remove returns true if x was present.
func (s *Set) Remove(x uint64) bool {
	if !s.Contains(x) {
		return false
	}
	s.RemoveRange(x, x)
	return true
}

// AddValues adds many values at once.
func (s *Set) AddValues32(vs []uint32) {
	if len(vs) < 8 {
		for _, v := range vs {
			s.Add(uint64(v))
		}
		return
	}
	s.iv = Or(s, FromValues32(vs)).iv
}

func (s *Set) Clear() { s.iv = nil }

// Min/Max require a non-empty set.
func (s *Set) Min() uint64 { return s.iv[0].Lo }
func (s *Set) Max() uint64 { return s.iv[len(s.iv)-1].Hi }

// Rank returns #{v in s : v <= x}.
func (s *Set) Rank(x uint64) uint64 {
	var n uint64
	for _, iv := range s.iv {
		if iv.Lo > x {
			break
		}
		hi := iv.Hi
		if hi > x {
			hi = x
		}
		n += hi - iv.Lo + 1
	}
	return n
}

// CountRange returns #{v in s: lo <= v <= hi}.
func (s *Set) CountRange(lo, hi uint64) uint64 {
	if lo > hi {
		return 0
	}
	return And(s, &Set{iv: []Iv{{lo, hi}}}).Card()
}

// Select returns the i-th smallest element (0-based); ok=false if i >= Card.
func (s *Set) Select(i uint64) (uint64, bool) {
	for _, iv := range s.iv {
		w := iv.Hi - iv.Lo
		if w == Max64 {
			return iv.Lo + i, true
		}
		if i <= w {
			return iv.Lo + i, true
		}
		i -= w + 1
	}
	return 0, false
}

// NextPresent: smallest element >= t.
func (s *Set) NextPresent(t uint64) (uint64, bool) {
	i := s.find(t)
	if i == len(s.iv) {
		return 0, false
	}
	if s.iv[i].Lo > t {
		return s.iv[i].Lo, true
	}
	return t, true
}

// PrevPresent: largest element <= t.
func (s *Set) PrevPresent(t uint64) (uint64, bool) {
	i := s.find(t)
	if i < len(s.iv) && s.iv[i].Lo <= t {
		return t, true
	}
	if i == 0 {
		return 0, false
	}
	return s.iv[i-1].Hi, true
}

// NextAbsent: smallest integer >= t, <= umax, not in s.
func (s *Set) NextAbsent(t, umax uint64) (uint64, bool) {
	i := s.find(t)
	if i == len(s.iv) || s.iv[i].Lo > t {
		return t, true
	}
	if s.iv[i].Hi >= umax {
		return 0, false
	}
	return s.iv[i].Hi + 1, true
}

// PrevAbsent: largest integer <= t not in s.
func (s *Set) PrevAbsent(t uint64) (uint64, bool) {
	i := s.find(t)
	if i == len(s.iv) || s.iv[i].Lo > t {
		return t, true
	}
	if s.iv[i].Lo == 0 {
		return 0, false
	}
	return s.iv[i].Lo - 1, true
}

// Shift returns {v+d : v in s, 0 <= v+d <= umax}.
func (s *Set) Shift(d int64, umax uint64) *Set {
	out := New()
	for _, iv := range s.iv {
		var lo, hi uint64
		if d >= 0 {
			ud := uint64(d)
			if iv.Lo > umax || ud > umax-iv.Lo {
				continue
			}
			lo = iv.Lo + ud
			if iv.Hi > umax || ud > umax-iv.Hi {
				hi = umax
			} else {
				hi = iv.Hi + ud
			}
		} else {
			ud := uint64(-d)
			if iv.Hi < ud {
				continue
			}
			hi = iv.Hi - ud
			if iv.Lo < ud {
				lo = 0
			} else {
				lo = iv.Lo - ud
			}
			if lo > umax {
				continue
			}
			if hi > umax {
				hi = umax
			}
		}
		out.iv = append(out.iv, Iv{lo, hi})
	}
	return out
}

// Complement within [lo,hi].
func (s *Set) Complement(lo, hi uint64) *Set {
	if lo > hi {
		return New()
	}
	return AndNot(&Set{iv: []Iv{{lo, hi}}}, s)
}

// Window returns s ∩ [lo,hi].
func (s *Set) Window(lo, hi uint64) *Set {
	if lo > hi {
		return New()
	}
	return And(s, &Set{iv: []Iv{{lo, hi}}})
}

// ToSlice enumerates (caller bounds the cardinality).
func (s *Set) ToSlice() []uint64 {
	n := s.Card()
	if n > 1<<27 {
		panic(fmt.Sprintf("model: refusing to enumerate %d values", n))
	}
	out := make([]uint64, 0, n)
	for _, iv := range s.iv {
		for v := iv.Lo; ; v++ {
			out = append(out, v)
			if v == iv.Hi {
				break
			}
		}
	}
	return out
}

func (s *Set) ToSlice32() []uint32 {
	n := s.Card()
	if n > 1<<27 {
		panic(fmt.Sprintf("model: refusing to enumerate %d values", n))
	}
	out := make([]uint32, 0, n)
	for _, iv := range s.iv {
		for v := iv.Lo; ; v++ {
			out = append(out, uint32(v))
			if v == iv.Hi {
				break
			}
		}
	}
	return out
}

// String prints an interval summary, never an element list.
func (s *Set) String() string {
	var b strings.Builder
	fmt.Fprintf(&b, "{card=%d ivs=%d:", s.Card(), len(s.iv))
	for i, iv := range s.iv {
		if i >= 12 {
			fmt.Fprintf(&b, " …(+%d)", len(s.iv)-i)
			break
		}
		if iv.Lo == iv.Hi {
			fmt.Fprintf(&b, " %d", iv.Lo)
		} else {
			fmt.Fprintf(&b, " [%d..%d]", iv.Lo, iv.Hi)
		}
	}
	b.WriteString("}")
	return b.String()
}

// Diff describes the first difference between two sets (for messages).
func Diff(want, got *Set) string {
	if want.Equal(got) {
		return "equal"
	}
	missing := AndNot(want, got)
	extra := AndNot(got, want)
	return fmt.Sprintf("missing(in want, not got)=%s extra(in got, not want)=%s", missing, extra)
}

// Keys16 returns the distinct chunk keys (v>>16) touched, for 32-bit sets.
func (s *Set) Keys16() []uint16 {
	var out []uint16
	for _, iv := range s.iv {
		for k := iv.Lo >> 16; k <= iv.Hi>>16; k++ {
			if len(out) == 0 || out[len(out)-1] != uint16(k) {
				out = append(out, uint16(k))
			}
		}
	}
	return out
}
