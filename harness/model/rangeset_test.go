package model

import (
	"testing"

	"pgregory.net/rapid"
)

const U = 1 << 10

type boolset [U]bool

func genOps(t *rapid.T, s *Set, b *boolset) {
	n := rapid.IntRange(0, 12).Draw(t, "n")
	for i := 0; i < n; i++ {
		lo := uint64(rapid.IntRange(0, U-1).Draw(t, "lo"))
		hi := uint64(rapid.IntRange(0, U-1).Draw(t, "hi"))
		switch rapid.IntRange(0, 4).Draw(t, "op") {
		case 0:
			s.AddRange(lo, hi)
			for v := lo; v <= hi; v++ {
				b[v] = true
			}
		case 1:
			s.RemoveRange(lo, hi)
			for v := lo; v <= hi; v++ {
				b[v] = false
			}
		case 2:
			s.FlipRange(lo, hi)
			for v := lo; v <= hi; v++ {
				b[v] = !b[v]
			}
		case 3:
			was := b[lo]
			if s.Add(lo) == was {
				t.Fatalf("Add result")
			}
			b[lo] = true
		case 4:
			was := b[lo]
			if s.Remove(lo) != was {
				t.Fatalf("Remove result")
			}
			b[lo] = false
		}
	}
}

func same(t *rapid.T, s *Set, b *boolset, what string) {
	for i := 1; i < len(s.iv); i++ {
		if s.iv[i].Lo <= s.iv[i-1].Hi+1 {
			t.Fatalf("%s: not normalized %v", what, s.iv)
		}
	}
	n := uint64(0)
	for v := 0; v < U; v++ {
		if s.Contains(uint64(v)) != b[v] {
			t.Fatalf("%s: contains(%d) model=%v bool=%v %s", what, v, s.Contains(uint64(v)), b[v], s)
		}
		if b[v] {
			n++
		}
	}
	if s.Card() != n {
		t.Fatalf("%s: card %d vs %d", what, s.Card(), n)
	}
}

func TestModelSelf(t *testing.T) {
	rapid.Check(t, func(t *rapid.T) {
		var a, b Set
		var ba, bb boolset
		genOps(t, &a, &ba)
		genOps(t, &b, &bb)
		same(t, &a, &ba, "a")
		same(t, &b, &bb, "b")
		var bo, band, bx, bn boolset
		for v := 0; v < U; v++ {
			bo[v] = ba[v] || bb[v]
			band[v] = ba[v] && bb[v]
			bx[v] = ba[v] != bb[v]
			bn[v] = ba[v] && !bb[v]
		}
		same(t, Or(&a, &b), &bo, "or")
		same(t, And(&a, &b), &band, "and")
		same(t, Xor(&a, &b), &bx, "xor")
		same(t, AndNot(&a, &b), &bn, "andnot")
		// queries
		x := uint64(rapid.IntRange(0, U-1).Draw(t, "x"))
		r := uint64(0)
		for v := uint64(0); v <= x; v++ {
			if ba[v] {
				r++
			}
		}
		if a.Rank(x) != r {
			t.Fatalf("rank")
		}
		sl := a.ToSlice()
		for i, v := range sl {
			g, ok := a.Select(uint64(i))
			if !ok || g != v {
				t.Fatalf("select")
			}
		}
		if _, ok := a.Select(uint64(len(sl))); ok {
			t.Fatalf("select oob")
		}
		// neighbours; universe is [0,U-1]
		np, okp := a.NextPresent(x)
		wantok := false
		var want uint64
		for v := x; v < U; v++ {
			if ba[v] {
				wantok, want = true, v
				break
			}
		}
		if okp != wantok || (okp && np != want) {
			t.Fatalf("nextpresent")
		}
		pp, okpp := a.PrevPresent(x)
		wantok = false
		for v := int(x); v >= 0; v-- {
			if ba[v] {
				wantok, want = true, uint64(v)
				break
			}
		}
		if okpp != wantok || (okpp && pp != want) {
			t.Fatalf("prevpresent")
		}
		na, oka := a.NextAbsent(x, U-1)
		wantok = false
		for v := x; v < U; v++ {
			if !ba[v] {
				wantok, want = true, v
				break
			}
		}
		if oka != wantok || (oka && na != want) {
			t.Fatalf("nextabsent %d %v want %d %v", na, oka, want, wantok)
		}
		pa, okpa := a.PrevAbsent(x)
		wantok = false
		for v := int(x); v >= 0; v-- {
			if !ba[v] {
				wantok, want = true, uint64(v)
				break
			}
		}
		if okpa != wantok || (okpa && pa != want) {
			t.Fatalf("prevabsent")
		}
		// shift
		d := int64(rapid.IntRange(-U-5, U+5).Draw(t, "d"))
		var bs boolset
		for v := 0; v < U; v++ {
			if ba[v] {
				w := int64(v) + d
				if w >= 0 && w < U {
					bs[w] = true
				}
			}
		}
		same(t, a.Shift(d, U-1), &bs, "shift")
		lo := uint64(rapid.IntRange(0, U-1).Draw(t, "wlo"))
		hi := uint64(rapid.IntRange(0, U-1).Draw(t, "whi"))
		var bc, bw boolset
		cnt := uint64(0)
		for v := lo; v <= hi; v++ {
			bc[v] = !ba[v]
			bw[v] = ba[v]
			if ba[v] {
				cnt++
			}
		}
		same(t, a.Complement(lo, hi), &bc, "complement")
		same(t, a.Window(lo, hi), &bw, "window")
		if a.CountRange(lo, hi) != cnt {
			t.Fatalf("countrange")
		}
	})
}

func TestModelEdges(t *testing.T) {
	s := New()
	s.AddRange(Max64-3, Max64)
	s.AddRange(0, 2)
	s.Add(3)
	if s.Card() != 8 || len(s.iv) != 2 || !s.Contains(Max64) {
		t.Fatal(s)
	}
	s.FlipRange(0, Max64)
	if s.Card() != Max64-8+1 || len(s.iv) != 1 || s.iv[0] != (Iv{4, Max64 - 4}) {
		t.Fatal(s)
	}
	if _, ok := s.NextAbsent(5, Max64); !ok {
		t.Fatal("nextabsent")
	}
	x := FromValues([]uint64{5, 1, 2, 2, Max64})
	if x.Card() != 4 || len(x.iv) != 3 {
		t.Fatal(x)
	}
	sh := FromIntervals([]Iv{{Max32 - 1, Max32}, {0, 1}}).Shift(1, Max32)
	if !sh.Equal(FromIntervals([]Iv{{1, 2}, {Max32, Max32}})) {
		t.Fatal(sh)
	}
}
