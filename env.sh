# source me: offline Go environment for the harness
export GOFLAGS=-mod=mod GOPROXY=off GOSUMDB=off GOTOOLCHAIN=local
export GOCACHE=${GOCACHE:-/verif/.cache/go-build}
GO124=/root/go/pkg/mod/golang.org/toolchain@v0.0.1-go1.24.4.linux-amd64/bin/go
if [ -x "$GO124" ]; then export VGO=$GO124; else export VGO=$(command -v go1.26.8); fi
